"""CLI:  python -m sa.run <Cxx> --tier quick|thorough
          python -m sa.run --replay <path>
          python -m sa.run --all [--tier ...]      (developer convenience)

Exit 0: every obligation discharged (open known findings are printed as
KNOWN-FINDING lines); exit 1: a violation not listed as open (VIOLATION line
with a replay file); exit 2: ANALYSIS-ERROR (the analysis cannot decide).
"""

from __future__ import annotations

import argparse
import json
import os
import sys
import time
import traceback

from .model import Program, AnalysisError
from . import report


_PROGRAM = None


def _program():
    """one model of /repo's working tree per process (--all checks 20 properties against the same parse)"""
    global _PROGRAM
    if _PROGRAM is None:
        _PROGRAM = Program()
    return _PROGRAM


def run_property(prop, tier, seed, quiet=False):
    from . import props

    t0 = time.time()
    spec = props.PROPS.get(prop)
    if spec is None:
        raise AnalysisError(f"unknown or unclaimed property {prop}")
    P = _program()
    if P.dynamic_sites:
        raise AnalysisError(f"dynamic attribute tricks in the package (assumption A5): {P.dynamic_sites}")
    results = report.run_rules(P, spec["rules"])
    extra = {}
    if tier == "thorough":
        from . import selftest

        st = selftest.run(prop, quiet=quiet)
        extra["selftest"] = st
        results.extend(report.run_rules(P, spec.get("thorough_rules", [])))
    known = report.load_known()
    new, hits, undecided = [], [], []
    for r in results:
        for o in r.obs:
            if o.ok:
                continue
            if o.undecided:
                undecided.append(o)
                continue
            e = report.match_known(known, prop, o)
            if e is not None:
                hits.append(f"{o.rule} {o.file}::{o.function} :: {e.get('what', o.msg)}")
            else:
                new.append(o)
    if not quiet:
        st = P.stats()
        print(f"[{prop}] analysed {st['modules']} modules, {st['classes']} classes, {st['functions']} functions "
              f"(tree digest {st['digest']})")
        for r in results:
            bad = sum(1 for o in r.obs if not o.ok and not o.undecided)
            und = sum(1 for o in r.obs if o.undecided)
            print(f"[{prop}] rule {r.rule}: {len(r.obs)} instance(s), {bad} violated" + (f", {und} undecided" if und else "")
                  + (f" (min {r.min_instances})" if r.min_instances else ""))
            for s in r.info:
                print(f"[{prop}]    info: {s}")
    for h in hits:
        print(f"KNOWN-FINDING: property={prop} {h}")
    report.write_evidence(prop, tier, seed, spec["explanation"], results, P.stats(), t0, len(new), hits,
                          extra=extra, assumptions=spec.get("assumptions"))
    for n, o in enumerate(new):
        path = report.write_replay(prop, n, o)
        print(f"  {o.rule} at {o.file}:{o.line} in {o.function}: {o.construct}")
        print(f"     {o.msg}")
        if o.witness:
            print(f"     witness: {o.witness}")
        print(f"VIOLATION property={prop} replay={path}")
    for o in undecided:
        print(f"ANALYSIS-ERROR property={prop} rule {o.rule} cannot decide {o.file}:{o.line} in {o.function}: {o.msg or o.construct}")
    return 1 if new else (2 if undecided else 0)


def replay(path):
    from . import props

    with open(path, encoding="utf-8") as f:
        rec = json.load(f)
    prop = rec["property"]
    key = tuple(rec["key"])
    P = Program()
    spec = props.PROPS[prop]
    found = None
    for rr in report.run_rules(P, spec["rules"] + spec.get("thorough_rules", [])):
        for o in rr.obs:
            if o.key() == key:
                found = o
    if found is None:
        print(f"replay: the construct {key} no longer exists in the tree (rule instance gone)")
        return 0
    print(json.dumps(found.to_json(), indent=1, ensure_ascii=False))
    if found.ok:
        print("replay: this instance is now satisfied")
        return 0
    print(f"VIOLATION property={prop} replay={path}")
    return 1


def main(argv=None):
    ap = argparse.ArgumentParser()
    ap.add_argument("prop", nargs="?")
    ap.add_argument("--tier", default=os.environ.get("VERIF_TIER", "quick"), choices=["quick", "thorough"])
    ap.add_argument("--replay")
    ap.add_argument("--all", action="store_true")
    ap.add_argument("--quiet", action="store_true")
    ap.add_argument("--selfcheck", action="store_true")
    a = ap.parse_args(argv)
    try:
        seed = int(os.environ.get("VERIF_SEED", "0") or 0)
    except ValueError:
        seed = 0
    try:
        if a.selfcheck:
            from . import props, variants

            from .rules import generic

            P = Program()
            pos = generic.selfcheck_positive()
            print(f"sa self-check: {P.stats()} ; {len(props.PROPS)} properties claimed ; {len(variants.VARIANTS)} variants ; "
                  f"positive example fired {pos}")
            return 0
        if a.replay:
            return replay(a.replay)
        if a.all:
            from . import props

            rc = 0
            for p in sorted(props.PROPS):
                try:
                    rc = max(rc, run_property(p, a.tier, seed, quiet=a.quiet))
                except AnalysisError as e:
                    print(f"ANALYSIS-ERROR property={p} {e}")
                    rc = max(rc, 2)
            return rc
        if not a.prop:
            ap.error("property id required")
        return run_property(a.prop, a.tier, seed, quiet=a.quiet)
    except AnalysisError as e:
        print(f"ANALYSIS-ERROR property={a.prop} {e}")
        return 2
    except Exception:  # an internal error must not look like a violation
        traceback.print_exc()
        print(f"ANALYSIS-ERROR property={a.prop} internal error in the analysis (see traceback)")
        return 2


if __name__ == "__main__":
    sys.exit(main())
