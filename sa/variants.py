"""Seeded variants for the checker self-test (see selftest.py).  expect=None marks a benign twin."""

VARIANTS = []


def v(id, props, file, old, new, expect, **kw):
    VARIANTS.append(dict(id=id, props=props, file=file, old=old, new=new, expect=expect, **kw))


# ------------------------------------------------------------------ agenda (C02, C04)
v("radix-c0", ["C02", "C04"], "parse/earley.py", "self.ORDER_MAX = 1 + max(self.order.values())",
  "self.ORDER_MAX = max(self.order.values())", "RADIX")
v("radix-c0-rescaled", ["C02", "C04"], "parse/earley_rescaled.py", "self.ORDER_MAX = 1 + max(self.order.values())",
  "self.ORDER_MAX = max(self.order.values())", "RADIX")
v("radix-swapped", ["C02", "C04"], "parse/earley.py", "-((K - I) * self.ORDER_MAX + self.order[X])",
  "-((K - I) + self.ORDER_MAX * self.order[X])", "RADIX")
v("radix-benign-plus2", ["C02", "C04"], "parse/earley.py", "self.ORDER_MAX = 1 + max(self.order.values())",
  "self.ORDER_MAX = max(self.order.values()) + 2", None)
v("deporder-untransposed", ["C02", "C04"], "parse/earley.py", "cfg._unary_graph_transpose().buckets",
  "cfg._unary_graph().buckets", "DEP-ORDER")
v("deporder-outgoing", ["C02", "C04", "C08", "C15"], "linear.py", "scc_decomposition(self.incoming.__getitem__, roots)",
  "scc_decomposition(self.outgoing.__getitem__, roots)", "DEP-ORDER", expect_file="*")
v("deporder-keysign", ["C02", "C04"], "parse/earley_rescaled.py", "col.Q[item] = -((K - I) * self.ORDER_MAX + self.order[X])",
  "col.Q[item] = (K - I) * self.ORDER_MAX + self.order[X]", "DEP-ORDER")
v("prep-swapped", ["C02", "C04"], "parse/earley.py", "cfg.nullaryremove(binarize=True).unarycycleremove().renumber()",
  "cfg.unarycycleremove().nullaryremove(binarize=True).renumber()", "PIPE-EARLEYPREP")
v("prep-benign-split", ["C02", "C04"], "parse/earley.py",
  "        cfg = cfg.nullaryremove(binarize=True).unarycycleremove().renumber()\n",
  "        cfg = cfg.nullaryremove(binarize=True)\n        cfg = cfg.unarycycleremove().renumber()\n", None)
v("accum-overwrite", ["C02", "C04"], "parse/earley.py", "                col.c_chart[item] = was + value",
  "                col.c_chart[item] = value", "ACCUM")
v("accum-benign-commute", ["C02", "C04"], "parse/earley.py", "                col.i_chart[item] = was + value",
  "                col.i_chart[item] = value + was", None)

# ------------------------------------------------------------------ effects (C05)
v("eff-spawn-shares-V", ["C05", "C20"], "cfg.py", "V=set(self.V) if V is None else V,", "V=self.V if V is None else V,", "EFFECT",
  expect_file="cfglm.py")
v("eff-binarize-stack", ["C05"], "cfg.py", "        stack = list(self)\n", "        stack = self.rules\n", "EFFECT")
v("eff-list-append", ["C05"], "parse/earley.py",
  "            return chart + [\n                last_chart\n            ]  # TODO: avoid list addition here as it is not constant time!",
  "            chart.append(last_chart)\n            return chart", "EFFECT")
v("eff-list-augassign", ["C05"], "parse/cky.py",
  "            return chart + [\n                last_chart\n            ]  # TODO: avoid list addition here as it is not constant time!",
  "            chart += [last_chart]\n            return chart", "EFFECT")
v("eff-list-benign-star", ["C05"], "parse/earley_rescaled.py",
  "            return chart + [\n                last_chart\n            ]  # TODO: avoid list addition here as it is not constant time!",
  "            return [*chart, last_chart]", None)
v("eff-column-prev", ["C05"], "parse/earley.py", "        self.PREDICT(next_col)\n\n        return next_col",
  "        self.PREDICT(next_col)\n        prev_col.i_chart.update(next_col.i_chart)\n\n        return next_col", "EFFECT")
v("eff-update-prev", ["C05"], "parse/earley.py", "            _update(next_col, Q, I, X, rest_Ys[Ys], prev_col_i_chart[item])",
  "            _update(prev_col, Q, I, X, rest_Ys[Ys], prev_col_i_chart[item])", "EFFECT")
v("eff-clear-resets-column", ["C05"], "parse/earley.py", "    def clear_cache(self):\n        self._chart.clear()\n",
  "    def clear_cache(self):\n        self._chart.clear()\n        self._initial_column = Column(0)\n", "EFFECT")
v("eff-trim-result-mutated", ["C05"], "cfg.py", "        if trim:\n            new = new.trim()\n\n        return new",
  "        if trim:\n            new = new.trim()\n            new.add(self.R.one, self.S, self.S)\n\n        return new", "EFFECT")
v("eff-addeos-in-place", ["C05", "C20"], "cfglm.py", "    new.V.add(eos)\n", "    new.V.add(eos)\n    cfg.V.add(eos)\n", "EFFECT")
v("eff-global-cache", ["C05"], "parse/earley.py", "class Column:\n", "_CHARTS = {}\n\n\nclass Column:\n", "GLOBAL-STATE")
v("eff-class-cache", ["C05"], "parse/cky.py", "    def __init__(self, cfg):\n        \"\"\"\n        Initialize an incremental CKY parser.",
  "    _shared = {}\n\n    def __init__(self, cfg):\n        \"\"\"\n        Initialize an incremental CKY parser.", "GLOBAL-STATE")
v("memo-key-last", ["C05"], "parse/earley.py", "        x = tuple(x)\n        c = self._chart.get(x)", "        x = tuple(x)\n        c = self._chart.get(x[-1:])", "MEMO-KEY")
v("memo-key-mismatch", ["C05"], "parse/earley_rescaled.py", "self._chart[p] = c = self._compute_chart(p)",
  "self._chart[p] = c = self._compute_chart(x)", "MEMO-KEY")
v("vivify-back", ["C05"], "parse/earley.py", "for item in prev_col.waiting_for.get(token, ()):", "for item in prev_col.waiting_for[token]:", "EFF-VIVIFY")
v("rec-back", ["C05"], "parse/earley.py", "chart = self._chart[x[:-1]]  # cached: `chart` fills prefixes in order",
  "chart = self.chart(x[:-1])", "REC-CACHEFILL")
v("eff-benign-rename", ["C05"], "parse/earley.py", "        next_col = Column(prev_cols[-1].k + 1)\n        next_col_c_chart = next_col.c_chart",
  "        next_col = Column(prev_col.k + 1)\n        next_col_c_chart = next_col.c_chart", None)
