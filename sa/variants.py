"""Seeded variants for the checker self-test (see selftest.py).  expect=None marks a benign twin."""

VARIANTS = []


def v(id, props, file, old, new, expect, **kw):
    VARIANTS.append(dict(id=id, props=props, file=file, old=old, new=new, expect=expect, **kw))


# ------------------------------------------------------------------ agenda (C02, C04)
v("radix-c0", ["C02", "C04"], "parse/earley.py", "self.ORDER_MAX = 1 + max(self.order.values())",
  "self.ORDER_MAX = max(self.order.values())", "RADIX")
v("radix-c0-rescaled", ["C02", "C04"], "parse/earley_rescaled.py", "self.ORDER_MAX = 1 + max(self.order.values())",
  "self.ORDER_MAX = max(self.order.values())", "RADIX")
v("radix-swapped", ["C02", "C04"], "parse/earley.py", "-((K - I) * self.ORDER_MAX + self.order[X])",
  "-((K - I) + self.ORDER_MAX * self.order[X])", "RADIX")
v("radix-benign-plus2", ["C02", "C04"], "parse/earley.py", "self.ORDER_MAX = 1 + max(self.order.values())",
  "self.ORDER_MAX = max(self.order.values()) + 2", None)
v("deporder-untransposed", ["C02", "C04"], "parse/earley.py", "cfg._unary_graph_transpose().buckets",
  "cfg._unary_graph().buckets", "DEP-ORDER")
v("deporder-outgoing", ["C02", "C04", "C08", "C15"], "linear.py", "scc_decomposition(self.incoming.__getitem__, roots)",
  "scc_decomposition(self.outgoing.__getitem__, roots)", "DEP-ORDER", expect_file="*")
v("deporder-keysign", ["C02", "C04"], "parse/earley_rescaled.py", "col.Q[item] = -((K - I) * self.ORDER_MAX + self.order[X])",
  "col.Q[item] = (K - I) * self.ORDER_MAX + self.order[X]", "DEP-ORDER")
v("prep-swapped", ["C02", "C04"], "parse/earley.py", "cfg.nullaryremove(binarize=True).unarycycleremove().renumber()",
  "cfg.unarycycleremove().nullaryremove(binarize=True).renumber()", "PIPE-EARLEYPREP")
v("prep-benign-split", ["C02", "C04"], "parse/earley.py",
  "        cfg = cfg.nullaryremove(binarize=True).unarycycleremove().renumber()\n",
  "        cfg = cfg.nullaryremove(binarize=True)\n        cfg = cfg.unarycycleremove().renumber()\n", None)
v("accum-overwrite", ["C02", "C04"], "parse/earley.py", "                col.c_chart[item] = was + value",
  "                col.c_chart[item] = value", "ACCUM")
v("accum-benign-commute", ["C02", "C04"], "parse/earley.py", "                col.i_chart[item] = was + value",
  "                col.i_chart[item] = value + was", None)

# ------------------------------------------------------------------ effects (C05)
v("eff-spawn-shares-V", ["C05", "C20"], "cfg.py", "V=set(self.V) if V is None else V,", "V=self.V if V is None else V,", "EFFECT",
  expect_file="cfglm.py")
v("eff-binarize-stack", ["C05"], "cfg.py", "        stack = list(self)\n", "        stack = self.rules\n", "EFFECT")
v("eff-list-append", ["C05"], "parse/earley.py",
  "            return chart + [\n                last_chart\n            ]  # TODO: avoid list addition here as it is not constant time!",
  "            chart.append(last_chart)\n            return chart", "EFFECT")
v("eff-list-augassign", ["C05"], "parse/cky.py",
  "            return chart + [\n                last_chart\n            ]  # TODO: avoid list addition here as it is not constant time!",
  "            chart += [last_chart]\n            return chart", "EFFECT")
v("eff-list-benign-star", ["C05"], "parse/earley_rescaled.py",
  "            return chart + [\n                last_chart\n            ]  # TODO: avoid list addition here as it is not constant time!",
  "            return [*chart, last_chart]", None)
v("eff-column-prev", ["C05"], "parse/earley.py", "        self.PREDICT(next_col)\n\n        return next_col",
  "        self.PREDICT(next_col)\n        prev_col.i_chart.update(next_col.i_chart)\n\n        return next_col", "EFFECT")
v("eff-update-prev", ["C05"], "parse/earley.py", "            _update(next_col, Q, I, X, rest_Ys[Ys], prev_col_i_chart[item])",
  "            _update(prev_col, Q, I, X, rest_Ys[Ys], prev_col_i_chart[item])", "EFFECT")
v("eff-clear-resets-column", ["C05"], "parse/earley.py", "    def clear_cache(self):\n        self._chart.clear()\n",
  "    def clear_cache(self):\n        self._chart.clear()\n        self._initial_column = Column(0)\n", "EFFECT")
v("eff-trim-result-mutated", ["C05"], "cfg.py", "        if trim:\n            new = new.trim()\n\n        return new",
  "        if trim:\n            new = new.trim()\n            new.add(self.R.one, self.S, self.S)\n\n        return new", "EFFECT")
v("eff-addeos-in-place", ["C05", "C20"], "cfglm.py", "    new.V.add(eos)\n", "    new.V.add(eos)\n    cfg.V.add(eos)\n", "EFFECT")
v("eff-global-cache", ["C05"], "parse/earley.py", "class Column:\n", "_CHARTS = {}\n\n\nclass Column:\n", "GLOBAL-STATE")
v("eff-class-cache", ["C05"], "parse/cky.py", "    def __init__(self, cfg):\n        \"\"\"\n        Initialize an incremental CKY parser.",
  "    _shared = {}\n\n    def __init__(self, cfg):\n        \"\"\"\n        Initialize an incremental CKY parser.", "GLOBAL-STATE")
v("memo-key-last", ["C05"], "parse/earley.py", "        x = tuple(x)\n        c = self._chart.get(x)", "        x = tuple(x)\n        c = self._chart.get(x[-1:])", "MEMO-KEY")
v("memo-key-mismatch", ["C05"], "parse/earley_rescaled.py", "self._chart[p] = c = self._compute_chart(p)",
  "self._chart[p] = c = self._compute_chart(x)", "MEMO-KEY")
v("vivify-back", ["C05"], "parse/earley.py", "for item in prev_col.waiting_for.get(token, ()):", "for item in prev_col.waiting_for[token]:", "EFF-VIVIFY")
v("rec-back", ["C05"], "parse/earley.py", "chart = self._chart[x[:-1]]  # cached: `chart` fills prefixes in order",
  "chart = self.chart(x[:-1])", "REC-CACHEFILL")
v("eff-benign-rename", ["C05"], "parse/earley.py", "        next_col = Column(prev_cols[-1].k + 1)\n        next_col_c_chart = next_col.c_chart",
  "        next_col = Column(prev_col.k + 1)\n        next_col_c_chart = next_col.c_chart", None)

# ------------------------------------------------------------------ interfaces / pipelines (C01, C04)
v("iface-missing-method", ["C01", "C04"], "parse/cky.py", "    def clear_cache(self):\n        self._chart.clear()\n",
  "    def reset_cache(self):\n        self._chart.clear()\n", "IFACE-UNION", expect_file="*")
v("iface-arity", ["C01", "C04"], "parse/cky.py", "def next_token_weights(self, chart, prefix=None):", "def next_token_weights(self, chart, prefix):",
  "IFACE-UNION", expect_file="cfglm.py")
v("iface-cky-wrapper", ["C01", "C04"], "cfglm.py", "self.model = CKYLM(cfg).model", "self.model = CKYLM(cfg)", "IFACE-UNION")
v("masktrim-dropped", ["C01"], "cfglm.py", "p = self.model.next_token_weights(self.model.chart(context)).trim()",
  "p = self.model.next_token_weights(self.model.chart(context))", "PIPE-MASKTRIM")
v("masktrim-truthy", ["C01"], "cfglm.py",
  "        p = self.model.next_token_weights(self.model.chart(context)).trim()\n        return Float.chart({w: 1 for w in p})",
  "        p = self.model.next_token_weights(self.model.chart(context))\n        return Float.chart({w: 1 for w, v in p.items() if v})", "GEN-TRUTH")
v("masktrim-benign-explicit", ["C01"], "cfglm.py",
  "        p = self.model.next_token_weights(self.model.chart(context)).trim()\n        return Float.chart({w: 1 for w in p})",
  "        p = self.model.next_token_weights(self.model.chart(context))\n        return Float.chart({w: 1 for w, v in p.items() if v != Boolean.zero})", None)
v("pipelm-no-normalize", ["C04"], "parse/earley.py", "return self.model.next_token_weights(self.model.chart(context)).normalize()",
  "return self.model.next_token_weights(self.model.chart(context))", "PIPE-LM")
v("pipelm-no-prefix-grammar", ["C01", "C04"], "parse/earley.py", "self.model = Earley(cfg.prefix_grammar)", "self.model = Earley(cfg)", "PIPE-LM")
v("pipelm-no-eos", ["C01", "C04"], "cfglm.py", "        if EOS not in cfg.V:\n            cfg = add_EOS(cfg, eos=EOS)\n", "", "PIPE-LM")
v("pipelm-benign-tmp", ["C04"], "parse/earley.py", "        return self.model.next_token_weights(self.model.chart(context)).normalize()",
  "        cols = self.model.chart(context)\n        p = self.model.next_token_weights(cols)\n        return p.normalize()", None)
v("chainalign-off-by-one", ["C04"], "lm.py", "p = self.p_next(context[:i])", "p = self.p_next(context[: i + 1])", "PIPE-CHAINALIGN")
v("chainalign-seq", ["C04"], "lm.py", "P *= p[extension[i]]", "P *= p[extension[i - 1]]", "PIPE-CHAINALIGN")
v("tsrescale-missing-else", ["C04"], "parse/earley_rescaled.py",
  "        if den == 0 or num == 0:\n            next_col.rescale = 1\n        else:\n            next_col.rescale = num / den * prev_col.rescale",
  "        if not (den == 0 or num == 0):\n            next_col.rescale = num / den * prev_col.rescale", "TS-RESCALE")
v("guarddiv-rescale", ["C04"], "parse/earley_rescaled.py",
  "        if den == 0 or num == 0:\n            next_col.rescale = 1\n        else:\n            next_col.rescale = num / den * prev_col.rescale",
  "        if num == 0:\n            next_col.rescale = 1\n        else:\n            next_col.rescale = num / den * prev_col.rescale", "GUARD-DIV")

# ------------------------------------------------------------------ genericity (C02, C06, C08-C12, C15)
v("gen-literal-total", ["C11", "C12", "C10"], "wfsa/base.py", "        total = self.R.zero\n", "        total = 0\n", "GEN-LITERAL")
v("gen-literal-update", ["C08", "C02", "C06"], "cfg.py", "            update(a, self.R.one)", "            update(a, 1)", "GEN-LITERAL")
v("gen-literal-cmp", ["C02", "C06", "C09"], "cfg.py", "        if w == self.R.zero:\n            return  # skip rules with weight zero",
  "        if w == 0:\n            return  # skip rules with weight zero", "GEN-LITERAL")
v("gen-literal-one", ["C15", "C08", "C11"], "linear.py", "            b[i] = self.WeightType.one", "            b[i] = 1", "GEN-LITERAL")
v("gen-literal-filter", ["C10", "C09"], "fst.py", "    F.add_arc(0, (ε_2, ε_1), 0, R.one)", "    F.add_arc(0, (ε_2, ε_1), 0, 1.0)", "GEN-LITERAL")
v("gen-sum-back", ["C02"], "parse/earley.py", "                (r.w for r in self.cfg.rhs[self.cfg.S] if r.body == ()),\n                start=self.cfg.R.zero,\n",
  "                (r.w for r in self.cfg.rhs[self.cfg.S] if r.body == ()),\n", "GEN-SUM")
v("gen-sum-det", ["C13", "C11", "C12", "C10"], "wfsa/base.py", "W = sum(R.values(), start=self.R.zero)", "W = sum(R.values())", "GEN-SUM")
v("gen-fieldop", ["C02", "C06", "C08"], "cfg.py", "                        c[i, X, k] += r.w * c[i, Y, j] * c[j, Z, k]",
  "                        c[i, X, k] += r.w * c[i, Y, j] * c[j, Z, k] / self.R.one", "GEN-FIELDOP")
v("gen-truth-cky", ["C02", "C01", "C04"], "parse/cky.py", "                        z = new_j[Z]\n                        x = r.w * y * z",
  "                        z = new_j[Z]\n                        if not z:\n                            continue\n                        x = r.w * y * z", "GEN-TRUTH")
v("gen-truth-eps", ["C10", "C12"], "fst.py", "                if idx == 0 and ab[1] == ε:", "                if idx == 0 and not ab[1]:", "GEN-TRUTH")
v("gen-benign-zero-plus", ["C11", "C12", "C10"], "wfsa/base.py", "        total = self.R.zero\n", "        total = self.R.zero + self.R.zero\n", None)
v("gen-benign-counter", ["C08", "C02", "C06"], "cfg.py", "        iteration = 0\n        while b >= 0:", "        iteration = 0\n        n_updates = 0\n        while b >= 0:", None)
v("symclass-in-N", ["C08", "C06", "C07", "C02"], "cfg.py", "                if self.is_nonterminal(X):\n                    update *= V[X]",
  "                if X in self.N:\n                    update *= V[X]", "SYMCLASS")
v("multiset-fromkeys", ["C03", "C09", "C06", "C02"], "cfg.py", "        for r in itertools.chain(self, special_rules):\n            if len(r.body) == 0:\n                for s in fst.states:",
  "        for r in dict.fromkeys(itertools.chain(self, special_rules)):\n            if len(r.body) == 0:\n                for s in fst.states:", "MULTISET")
v("multiset-unfold-eq", ["C06", "C02"], "cfg.py", "        for j, r in enumerate(self):\n            if j != i:", "        for j, r in enumerate(self):\n            if r != s:", "MULTISET")
v("setnotadd-compose", ["C10", "C11", "C12"], "fst.py", "                    C.add_arc(PQ, (a, c), PʼQʼ, w1 * w2)", "                    C.set_arc(PQ, (a, c), PʼQʼ, w1 * w2)", "SET-NOT-ADD")

# ------------------------------------------------------------------ guards (C07, C06, C11, C13, C14, C18, C20)
v("shape-binarize-3", ["C07"], "cfg.py", "            if len(p.body) <= 2:\n                new.add(p.w, p.head, *p.body)", "            if len(p.body) <= 3:\n                new.add(p.w, p.head, *p.body)", "GUARD-SHAPE")
v("shape-nullary-guard", ["C07"], "cfg.py", "                if len(new_body) > 0:\n                    rcfg.add(v, f(r.head), *new_body)", "                rcfg.add(v, f(r.head), *new_body)", "GUARD-SHAPE")
v("shape-unaryremove-continue", ["C07"], "cfg.py", "            if len(r.body) == 1 and self.is_nonterminal(r.body[0]):\n                continue\n            for Y in self.N:",
  "            for Y in self.N:", "GUARD-SHAPE")
v("shape-trim-body", ["C07", "C06"], "cfg.py", "if p.head in symbols and p.w != self.R.zero and set(p.body) <= symbols:", "if p.head in symbols and p.w != self.R.zero:", "GUARD-SHAPE")
v("shape-epsremove", ["C11"], "wfsa/base.py", "            if a == EPSILON:\n                continue\n            for k in S.outgoing[j]:", "            for k in S.outgoing[j]:", "GUARD-SHAPE")
v("shape-benign-arms", ["C07"], "cfg.py", "            if len(p.body) <= 2:\n                new.add(p.w, p.head, *p.body)\n            else:\n                stack.extend(self._fold(p, [(0, 1)]))",
  "            if len(p.body) > 2:\n                stack.extend(self._fold(p, [(0, 1)]))\n            else:\n                new.add(p.w, p.head, *p.body)", None)
v("shape-benign-not-if", ["C07"], "cfg.py", "            if len(r.body) == 1 and self.is_nonterminal(r.body[0]):\n                continue\n            for Y in self.N:\n                new.add(W[Y, r.head] * r.w, Y, *r.body)",
  "            if not (len(r.body) == 1 and self.is_nonterminal(r.body[0])):\n                for Y in self.N:\n                    new.add(W[Y, r.head] * r.w, Y, *r.body)", None)
v("validator-start-on-rhs", ["C07"], "cfg.py", "                self.is_nonterminal(y) and y != self.S for y in r.body", "                self.is_nonterminal(y) for y in r.body", "GUARD-VALIDATOR")
v("cnfassert-dropped", ["C07"], "cfg.py", "        assert new.in_cnf(), \"\\n\".join(\n            str(r) for r in new._find_invalid_cnf_rule()\n        )  # pragma: no cover\n", "", "GUARD-CNFASSERT")
v("trim-per-symbol-back", ["C07"], "cfg.py", "                if not all((b in C) for b in e.body):\n                    continue\n", "", "GUARD-TRIMUSABLE")
v("trim-seed-back", ["C07"], "cfg.py", "        T = {self.S} if self.S in C else set()", "        T = {self.S}", "GUARD-TRIMUSABLE")
v("trim-benign-set-le", ["C07"], "cfg.py", "                if not all((b in C) for b in e.body):\n                    continue\n", "                if not set(e.body) <= C:\n                    continue\n", None)
v("ucycle-acyclic-test", ["C07", "C06"], "cfg.py", "                if G[X, X] == self.R.zero:\n                    acyclic.add(X)", "                if bucket.get(X) is not None:\n                    acyclic.add(X)", "GUARD-UCYCLE")
v("ucycle-copy-unguarded", ["C07", "C06"], "cfg.py", "            if len(r.body) == 1 and bucket.get(r.body[0]) == bucket[r.head]:\n                continue\n            new.add(r.w, bot(r.head), *r.body)",
  "            new.add(r.w, bot(r.head), *r.body)", "GUARD-UCYCLE")
v("cnforder-swapped", ["C07", "C06"], "cfg.py", "            .nullaryremove(binarize=True)\n            .trim()\n            .unaryremove()\n", "            .unaryremove()\n            .trim()\n            .nullaryremove(binarize=True)\n", "PIPE-CNFORDER")
v("div-locnorm-guard", ["C20"], "cfglm.py", "        if Z[r.head] == 0:\n            continue\n", "", "GUARD-DIV")
v("div-push-guard", ["C13"], "wfsa/base.py", "            if V[i] == self.R.zero:\n                continue\n            new.add_I(i, self.start[i] * V[i])", "            new.add_I(i, self.start[i] * V[i])", "GUARD-DIV")
v("div-powerarcs-back", ["C13"], "wfsa/base.py", "                if W == self.R.zero:\n                    continue  # no (non-zero) mass on this symbol\n\n", "", "GUARD-DIV")
v("div-basis-back", ["C14"], "wfsa/field_wfsa.py", "        if approx_equal(self.start, 0):\n            return np.zeros((0, self.dim))  # empty language: no forward space\n", "", "GUARD-DIV")
v("div-K", ["C18"], "lark_interface.py", "            if K == 0:\n                continue\n", "", "GUARD-DIV")
v("div-benign-neq", ["C20"], "cfglm.py", "        if Z[r.head] == 0:\n            continue\n        new.add(r.w * Z.product(r.body) / Z[r.head], r.head, *r.body)",
  "        if Z[r.head] != 0:\n            new.add(r.w * Z.product(r.body) / Z[r.head], r.head, *r.body)", None)

# ------------------------------------------------------------------ factors / names / singletons
v("push-swapped", ["C13"], "wfsa/base.py", "new.add_arc(i, a, j, V[i] ** (-1) * w * V[j])", "new.add_arc(i, a, j, V[j] ** (-1) * w * V[i])", "FACTOR-PUSH")
v("push-benign-order", ["C13"], "wfsa/base.py", "new.add_arc(i, a, j, V[i] ** (-1) * w * V[j])", "new.add_arc(i, a, j, w * V[j] * V[i] ** (-1))", None)
v("epsremove-both-sides", ["C11"], "wfsa/base.py", "                new.add_arc(i, a, k, w_ij * S[j, k])", "                new.add_arc(i, a, k, S[i, i] * w_ij * S[j, k])", "FACTOR-EPSREMOVE")
v("epsremove-benign-commute", ["C11"], "wfsa/base.py", "                new.add_I(k, w_i * S[i, k])", "                new.add_I(k, S[i, k] * w_i)", None)
v("link-w1-only", ["C12"], "wfsa/base.py", "                C.add_arc(i1, EPSILON, i2, w1 * w2)", "                C.add_arc(i1, EPSILON, i2, w1)", "FACTOR-LINK")
v("link-skip-selfloop", ["C12"], "wfsa/base.py", "            for j, w2 in self.I:\n                m.add_arc(i, EPSILON, j, w1 * w2)", "            for j, w2 in self.I:\n                if i == j:\n                    continue\n                m.add_arc(i, EPSILON, j, w1 * w2)", "FACTOR-LINK")
v("reverse-fields", ["C12"], "wfsa/base.py", "        for i, w in self.F:\n            R.add_I(i, w)\n        for i, w in self.I:\n            R.add_F(i, w)\n        return R",
  "        R.start = self.stop.trim()\n        R.stop = self.start.trim()\n        return R", "FIELD-API")
v("fromstring-or", ["C12"], "wfsa/base.py", "m.add_F(xs, (R.one if w is None else w))", "m.add_F(xs, w or R.one)", "GEN-TRUTH")
v("renameapart-dropped", ["C12"], "wfsa/base.py", "        self, other = self.rename_apart(other)\n        U = self.spawn(keep_init=True, keep_arcs=True, keep_stop=True)", "        U = self.spawn(keep_init=True, keep_arcs=True, keep_stop=True)", "PIPE-RENAMEAPART")
v("renameapart-same-tag", ["C12"], "wfsa/base.py", "other.rename(lambda i: f((1, i)))", "other.rename(lambda i: f((0, i)))", "PIPE-RENAMEAPART")
v("det-no-epsremove", ["C13"], "wfsa/base.py", "        self = self.epsremove.push\n", "        self = self.push\n", "PIPE-DET")
v("mindet-one-reverse", ["C13"], "wfsa/base.py", "return self.reverse.determinize.trim.reverse.determinize.trim", "return self.reverse.determinize.trim.determinize.trim", "PIPE-DET")
v("det-residual", ["C13"], "wfsa/base.py", "yield a, frozendict({p: W ** (-1) * R[p] for p in R}), W", "yield a, frozendict({p: R[p] for p in R}), W", "FACTOR-DET")
v("det-key-support", ["C13"], "wfsa/base.py", "                if Q not in visited:\n                    stack.append(Q)\n                    visited.add(Q)\n                D.add_arc(P, a, Q, w)",
  "                if frozenset(Q) not in visited:\n                    stack.append(Q)\n                    visited.add(frozenset(Q))\n                D.add_arc(P, a, Q, w)", "DET-KEY")
v("trim-keep-init", ["C13"], "wfsa/base.py", "    def _trim(self, active):\n        new = self.spawn()", "    def _trim(self, active):\n        new = self.spawn(keep_init=True, keep_stop=True)", "FACTOR-TRIM")
v("zview-back", ["C13"], "wfsa/base.py", "        stack = [q for q, _ in self.I]\n", "        stack = list(self.start)\n", "ZVIEW")
v("accumgraph-G", ["C11", "C13"], "wfsa/base.py", "        for i, _, j, w in self.arcs():\n            G[i, j] += w", "        for i, _, j, w in self.arcs():\n            G[i, j] = w", "ACCUM-GRAPH")
v("solve-left-order", ["C15", "C11"], "linear.py", "enter[j] += sol[i] * self.E[i, j]", "enter[j] += self.E[i, j] * sol[i]", "FACTOR-SOLVE")
v("solve-right-transposed", ["C15"], "linear.py", "            for i, j in B:\n                sol[i] += B[i, j] * enter[j]", "            for j, k in B:\n                sol[k] += B[j, k] * enter[j]", "FACTOR-SOLVE")
v("closure-hoist", ["C15"], "linear.py", "                for k in N:\n                    new[i, k] = old[i, k] + old[i, j] * sjj * old[j, k]",
  "                oij = sjj * old[i, j]\n                for k in N:\n                    new[i, k] = old[i, k] + oij * old[j, k]", "FACTOR-SOLVE")
v("closure-benign-hoist", ["C15"], "linear.py", "                for k in N:\n                    new[i, k] = old[i, k] + old[i, j] * sjj * old[j, k]",
  "                oij = old[i, j] * sjj\n                for k in N:\n                    new[i, k] = old[i, k] + oij * old[j, k]", None)
v("tarjan-lowlink", ["C15"], "linear.py", "            elif w in trail:\n                # Collapsing cycles.", "            elif w in trail or True:\n                # Collapsing cycles.", "TARJAN")
v("solve-right-unreversed", ["C15", "C08"], "linear.py", "for block, B in reversed(self.Blocks):", "for block, B in self.Blocks:", "DEP-ORDER")
v("agenda-upwards", ["C08"], "cfg.py", "        b = len(blocks)\n        iteration = 0\n        while b >= 0:", "        b = 0\n        iteration = 0\n        while b <= len(blocks):", "ANALYSIS-ERROR")
v("bytes-weight-everywhere", ["C17"], "wfsa/base.py", "                    byte_wfsa.add_arc(i, bs[0], curr, self.R.one)", "                    byte_wfsa.add_arc(i, bs[0], curr, w)", "FACTOR-BYTES")
v("bytes-local-counter", ["C17", "C19"], "wfsa/base.py", "        def get_new_state():\n            # globally fresh: several converted machines may be merged by name\n            return _gen_nt(\"_bytes\")",
  "        counter = 0\n\n        def get_new_state():\n            nonlocal counter\n            counter += 1\n            return f\"_bytes{counter}\"", "NS-BYTES")
v("tocfg-no-rename", ["C17"], "wfsa/base.py", "        if not self.states.isdisjoint(V):\n            # states double as nonterminals: keep them apart from the terminals\n            self = self.rename(lambda q: (\"state\", q))\n", "", "NS-TOCFG")
v("tocfg-left-not-mirrored", ["C17"], "wfsa/base.py", "                    cfg.add(w, j, i, a)", "                    cfg.add(w, j, a, i)", "NS-TOCFG")
v("looppair-back", ["C18", "C19"], "lark_interface.py", "                    if len(A) != 1:\n                        continue  # excluded from the fan-out above (with a warning)\n", "", "LOOPPAIR")
v("looppair-weight", ["C18", "C19"], "lark_interface.py", "                    m.add_arc(name(i), A, name(j), 1 / K)", "                    m.add_arc(name(i), A, name(j), 1 / (K + 1))", "LOOPPAIR")
v("charcfg-unwrapped", ["C19"], "lark_interface.py", "                foo.add(decay, ignore, f(token_class.name))", "                foo.add(decay, ignore, token_class.name)", "NS-CHARCFG")
v("charcfg-name-identity", ["C19"], "lark_interface.py", "                name=lambda x, t=token_class.name: f((t, x)),", "                name=lambda x, t=token_class.name: (t, x),", "NS-CHARCFG")
v("renumber-no-offset", ["C06"], "cfg.py", "return self.rename(lambda x: i(x) + max_v + 1)", "return self.rename(lambda x: i(x))", "NS-RENUMBER")
v("locnorm-no-division", ["C20"], "cfglm.py", "new.add(r.w * Z.product(r.body) / Z[r.head], r.head, *r.body)", "new.add(r.w * Z.product(r.body), r.head, *r.body)", "FACTOR-LOCNORM")
v("product-get-one", ["C20"], "chart.py", "        for k in ks:\n            v *= self[k]", "        for k in ks:\n            v *= self.get(k, self.semiring.one)", "FACTOR-LOCNORM")
v("addeos-weight", ["C20"], "cfglm.py", "    new.add(cfg.R.one, S, cfg.S, eos)", "    new.add(cfg.R.one + cfg.R.one, S, cfg.S, eos)", "WAUX")
v("addeos-fixed-start", ["C20"], "cfglm.py", "    S = _gen_nt(\"<START>\")", "    S = \"<START>\"", "WAUX")
v("addeos-or-default", ["C20"], "cfglm.py", "    eos = EOS if eos is None else eos", "    eos = eos or EOS", "DEFAULT-NONE")
v("addeos-trimmed-copy", ["C20"], "cfglm.py", "    for r in cfg:\n        new.add(r.w, r.head, *r.body)\n    return new", "    for r in cfg.trim():\n        new.add(r.w, r.head, *r.body)\n    return new", "COPY")
v("fold-aux-weight", ["C06", "C02"], "cfg.py", "            P.append(Rule(self.R.one, head, body))", "            P.append(Rule(p.w, head, body))", "WAUX")
v("preterminal-reuse", ["C06", "C02"], "cfg.py", "            if len(r.body) == 1 and self.is_terminal(r.body[0]):\n                new.add(r.w, r.head, *r.body)",
  "            if len(r.body) == 1 and self.is_terminal(r.body[0]):\n                _preterminal.setdefault(r.body[0], new.add(r.w, r.head, *r.body))", "WAUX")
v("unaryremove-nullary-verbatim", ["C06"], "cfg.py", "            for Y in self.N:\n                new.add(W[Y, r.head] * r.w, Y, *r.body)",
  "            if len(r.body) == 0:\n                new.add(r.w, r.head)\n                continue\n            for Y in self.N:\n                new.add(W[Y, r.head] * r.w, Y, *r.body)", "FACTOR-UNARYREMOVE")
v("nullpush-per-symbol", ["C06", "C01", "C02"], "cfg.py", "            for B in product([0, 1], repeat=len(r.body)):", "            for B in product([0, 1], repeat=len(set(r.body))):", "FACTOR-NULLPUSH")
v("nullstart-skipped", ["C06"], "cfg.py", "        self = self.separate_start()\n        tmp = self._push_null_weights(self.null_weight(), **kwargs)", "        tmp = self._push_null_weights(self.null_weight(), **kwargs)", "PIPE-NULLSTART")
v("delta-assign", ["C03"], "cfg.py", "                delta *= U[y]", "                delta = U[y]", "ACCUM-DELTA")
v("prefix-final-0", ["C03"], "cfg.py", "    P.add_F(1, R.one)\n    return P", "    P.add_F(1, R.one)\n    P.add_F(0, R.one)\n    return P", "TAB-PREFIX")
v("prefix-no-initial-1", ["C03"], "cfg.py", "    P.add_I(0, R.one)\n    P.add_I(1, R.one)", "    P.add_I(0, R.one)", "TAB-PREFIX")
v("prefix-copy-on-1", ["C03"], "cfg.py", "        P.add_arc(1, (x, EPSILON), 1, R.one)", "        P.add_arc(1, (x, EPSILON), 1, R.one)\n        P.add_arc(1, (x, x), 1, R.one)", "TAB-PREFIX")
v("prefix-benign-reorder", ["C03"], "cfg.py", "    P.add_I(0, R.one)\n    P.add_I(1, R.one)", "    P.add_I(1, R.one)\n    P.add_I(0, R.one)", None)
v("prefix-shortcut", ["C03"], "cfg.py", "        return self.prefix_grammar(xs)", "        if len(xs) == 0:\n            return self.R.one\n        return self.prefix_grammar(xs)", "TAB-PREFIX")
v("filter-extra-both", ["C10"], "fst.py", "    F.add_arc(1, (ε_1, ε_1), 1, R.one)", "    F.add_arc(1, (ε_1, ε_1), 1, R.one)\n    F.add_arc(1, (ε_2, ε_1), 0, R.one)", "TAB-EPSFILTER")
v("filter-missing-both", ["C10"], "fst.py", "    F.add_arc(0, (ε_2, ε_1), 0, R.one)\n", "", "TAB-EPSFILTER")
v("filter-nonfinal", ["C10"], "fst.py", "    F.add_F(2, R.one)\n", "", "TAB-EPSFILTER")
v("filter-staystay", ["C10"], "fst.py", "    F.add_arc(0, (ε_2, ε_1), 0, R.one)\n", "    F.add_arc(0, (ε_2, ε_1), 0, R.one)\n    F.add_arc(0, (ε_1, ε_2), 0, R.one)\n", "TAB-EPSFILTER")
v("filter-benign-reorder", ["C10"], "fst.py", "    F.add_arc(1, (ε_1, ε_1), 1, R.one)\n    F.add_arc(2, (ε_2, ε_2), 2, R.one)", "    F.add_arc(2, (ε_2, ε_2), 2, R.one)\n    F.add_arc(1, (ε_1, ε_1), 1, R.one)", None)
v("augment-swapped", ["C10"], "fst.py", "                T.add_arc(i, (ε, ε_1), i, self.R.one)", "                T.add_arc(i, (ε, ε_2), i, self.R.one)", "TAB-EPSFILTER")
v("assoc-wrong-idx", ["C10"], "fst.py", "                    other._augment_epsilon_transitions(1), coarsen=False", "                    other._augment_epsilon_transitions(0), coarsen=False", "TAB-ASSOC")
v("assoc-filter-alphabet", ["C10"], "fst.py", "                    epsilon_filter_fst(self.R, self.B), coarsen=False", "                    epsilon_filter_fst(self.R, other.B), coarsen=False", "TAB-ASSOC")
v("special-dropped", ["C09", "C03"], "cfg.py", "            Rule(self.R.one, Other(self.S), (Other(self.S), EPSILON)),\n        ]\n\n        def join(start, Ys):", "        ]\n\n        def join(start, Ys):", "TAB-SPECIAL")
v("special-newV", ["C09", "C03"], "cfg.py", "        special_rules = [Rule(self.R.one, a, (EPSILON, a)) for a in self.V] + [\n            Rule(self.R.one, Other(self.S), (self.S,)),\n            Rule(self.R.one, Other(self.S), (Other(self.S), EPSILON)),\n        ]\n\n        def join",
  "        special_rules = [Rule(self.R.one, a, (EPSILON, a)) for a in new.V] + [\n            Rule(self.R.one, Other(self.S), (self.S,)),\n            Rule(self.R.one, Other(self.S), (Other(self.S), EPSILON)),\n        ]\n\n        def join", "TAB-SPECIAL")
v("labelpair-bare", ["C10", "C09"], "fst.py", "            p.add_arc(0, (EPSILON, EPSILON), (i, 0), R.one)", "            p.add_arc(0, EPSILON, (i, 0), R.one)", "LABEL-PAIR")
v("compose-prune", ["C09"], "fst.py", "                return other @ self.T", "                return other @ self.T.prune_to_alphabet(other.V, None)", "PIPE-COMPOSE")
v("wfsacall-no-epsremove", ["C11"], "wfsa/base.py", "    def __call__(self, xs):\n        self = self.epsremove\n", "    def __call__(self, xs):\n", "PIPE-WFSACALL")
v("dtype-back", ["C14"], "wfsa/field_wfsa.py", "start = np.full(S, self.R.zero, dtype=float)", "start = np.full(S, self.R.zero)", "GEN-DTYPE")
v("hash-dim", ["C14"], "wfsa/field_wfsa.py", "    def __hash__(self):\n        return 0", "    def __hash__(self):\n        return hash(self.dim)", "HASH-CONST")
v("symunion-self-only", ["C14"], "wfsa/field_wfsa.py", "        alphabet = set(self.arcs) | set(B.arcs)", "        alphabet = set(self.arcs)", "SYM-UNION")
v("shadow-back", ["C12"], "wfsa/field_wfsa.py", "WFSA.one = _ClassConstant(WFSA.lift(EPSILON, w=Float.one, R=Float), base.WFSA.one)", "WFSA.one = WFSA.lift(EPSILON, w=Float.one, R=Float)", "GEN-SHADOW")
# semirings
v("sr-maxplus-zero", ["C16"], "semiring.py", "MaxPlus.zero = MaxPlus(-np.inf)", "MaxPlus.zero = MaxPlus(0.0)", "SR-TABLE")
v("sr-entropy-shortcut", ["C16"], "semiring.py", "        if other is self.zero:\n            return self\n        if self is self.zero:\n            return other\n        return Entropy(self.score[0] + other.score[0]",
  "        if other is self.zero:\n            return other\n        if self is self.zero:\n            return other\n        return Entropy(self.score[0] + other.score[0]", "SR-TABLE")
v("sr-maxtimes-mul", ["C16"], "semiring.py", "        return MaxTimes(self.score * other.score)", "        return MaxTimes(self.score + other.score)", "SR-TABLE")
v("sr-log-star", ["C16"], "semiring.py", "        return Log(-np.log1p(-np.exp(self.score)))", "        return Log.one", "SR-TABLE")
v("sr-log-metric", ["C16", "C08"], "semiring.py", "class Log(Semiring):\n    def metric(self, other):\n        return abs(self.score - other.score)",
  "class Log(Semiring):\n    def metric(self, other):\n        return abs(np.exp(self.score) - np.exp(other.score))", "SR-TABLE")
v("sr-expectation-cross", ["C16"], "semiring.py", "            self.score[0] * other.score[1] + other.score[0] * self.score[1],", "            self.score[0] * other.score[1] + other.score[1] * self.score[1],", "SR-TABLE")
v("sr-benign-commute", ["C16"], "semiring.py", "            self.score[0] * other.score[1] + other.score[0] * self.score[1],", "            other.score[0] * self.score[1] + other.score[1] * self.score[0],", None)
v("sr-benign-real", ["C16"], "semiring.py", "        return Real(self.score * other.score)", "        return Real(other.score * self.score)", None)

# ------------------------------------------------------------------ Earley / CKY slots
v("earley-scan-wrong-col", ["C02", "C04", "C01"], "parse/earley.py", "        for item in prev_col.waiting_for.get(token, ()):", "        for item in prev_cols[0].waiting_for.get(token, ()):", "FACTOR-EARLEY")
v("earley-attach-no-y", ["C02", "C04", "C01"], "parse/earley.py", "_update(next_col, Q, I, X, rest_Ys[Ys], col_J_i_chart[customer] * y)", "_update(next_col, Q, I, X, rest_Ys[Ys], col_J_i_chart[customer])", "FACTOR-EARLEY")
v("earley-attach-wrong-column", ["C02", "C04"], "parse/earley_rescaled.py", "            col_J = prev_cols[J]\n", "            col_J = prev_cols[-1]\n", "FACTOR-EARLEY")
v("earley-scan-no-rescale", ["C04", "C02"], "parse/earley_rescaled.py", "                prev_col_i_chart[item] * prev_col.rescale,", "                prev_col_i_chart[item],", "FACTOR-EARLEY")
v("earley-predict-before-drain", ["C02", "C04"], "parse/earley.py", "        Q = LocatorMaxHeap()\n", "        Q = LocatorMaxHeap()\n        self.PREDICT(next_col)\n", "FACTOR-EARLEY")
v("earley-dot-not-advanced", ["C02", "C01"], "parse/earley.py", "            _update(next_col, Q, I, X, rest_Ys[Ys], prev_col_i_chart[item])", "            _update(next_col, Q, I, X, Ys, prev_col_i_chart[item])", "FACTOR-EARLEY")
v("earley-benign-inline-alias", ["C02", "C04", "C01"], "parse/earley.py", "            _update(next_col, Q, I, X, rest_Ys[Ys], prev_col_i_chart[item])", "            _update(next_col, Q, I, X, self.rest_Ys[Ys], prev_col.i_chart[item])", None)
v("nexttok-no-unit-filter", ["C01", "C04"], "parse/earley.py", "                    if self.unit_Ys[Ys]:\n                        node = (I, X)", "                    if True:\n                        node = (I, X)", "FACTOR-NEXTTOK")
v("nexttok-seed", ["C01", "C04"], "parse/earley.py", "        q[0, self.cfg.S] = self.cfg.R.one\n\n        col = cols[-1]", "        q[0, self.cfg.S] = self.cfg.R.one\n        q[1, self.cfg.S] = self.cfg.R.one\n\n        col = cols[-1]", "FACTOR-NEXTTOK")
v("icky-outside-wrong-child", ["C01", "C04", "C02"], "parse/cky.py", "                        α_j[Z] += r.w * y * α_i[X]", "                        α_j[Z] += r.w * α_i[X]", "FACTOR-ICKY")
v("icky-preterminal-cell", ["C02", "C01", "C04"], "parse/cky.py", "        tmp = new[k - 1]\n        for r in self.terminal[prefix[k - 1]]:", "        tmp = new[k]\n        for r in self.terminal[prefix[k - 1]]:", "FACTOR-ICKY")

# ------------------------------------------------------------------ more benign twins (refactorings that keep behaviour)
v("twin-radix-span-temp", ["C02", "C04"], "parse/earley.py", "                Q[item] = -((K - I) * self.ORDER_MAX + self.order[X])",
  "                span = K - I\n                priority = -(span * self.ORDER_MAX + self.order[X])\n                Q[item] = priority", None)
v("twin-order-split", ["C02", "C04"], "parse/earley.py", "        self.order = cfg._unary_graph_transpose().buckets\n",
  "        unary = cfg._unary_graph_transpose()\n        self.order = unary.buckets\n", None)
v("twin-memo-key-var", ["C05"], "parse/earley.py", "        x = tuple(x)\n        c = self._chart.get(x)\n        if c is None:",
  "        key = tuple(x)\n        x = key\n        c = self._chart.get(key)\n        if c is None:", None)
v("twin-bound-method-alias", ["C05"], "cfg.py", "        new = self.spawn(R=R)\n        for r in self:\n            new.add(f(r.w), r.head, *r.body)\n        return new",
  "        new = self.spawn(R=R)\n        add = new.add\n        for r in self:\n            add(f(r.w), r.head, *r.body)\n        return new", None)
v("twin-nullary-truthy-list", ["C07"], "cfg.py", "                if len(new_body) > 0:\n                    rcfg.add(v, f(r.head), *new_body)", "                if new_body:\n                    rcfg.add(v, f(r.head), *new_body)", None)
v("twin-validator-single-if", ["C07"], "cfg.py",
  "            if len(r.body) == 0 and r.head == self.S:\n                continue\n            elif len(r.body) == 1 and self.is_terminal(r.body[0]):\n                continue\n            elif len(r.body) == 2 and all(\n                self.is_nonterminal(y) and y != self.S for y in r.body\n            ):\n                continue\n            else:\n                yield r",
  "            ok0 = len(r.body) == 0 and r.head == self.S\n            ok1 = len(r.body) == 1 and self.is_terminal(r.body[0])\n            ok2 = len(r.body) == 2 and all(self.is_nonterminal(y) and y != self.S for y in r.body)\n            if not (ok0 or ok1 or ok2):\n                yield r", None)
v("twin-epsremove-rename", ["C11"], "wfsa/base.py", "        S = E.closure()\n        new = self.spawn(keep_stop=True)\n        for i, w_i in self.I:\n            for k in S.outgoing[i]:\n                new.add_I(k, w_i * S[i, k])",
  "        closure = E.closure()\n        S = closure\n        new = self.spawn(keep_stop=True)\n        for i, w_i in self.I:\n            for k in closure.outgoing[i]:\n                new.add_I(k, w_i * closure[i, k])", None)
v("twin-push-temp", ["C13"], "wfsa/base.py", "            new.add_F(i, V[i] ** (-1) * self.stop[i])", "            inv = V[i] ** (-1)\n            new.add_F(i, inv * self.stop[i])", None)
v("twin-locnorm-nested-if", ["C20"], "cfglm.py", "        if Z[r.head] == 0:\n            continue\n        new.add(r.w * Z.product(r.body) / Z[r.head], r.head, *r.body)",
  "        z = Z[r.head]\n        if z != 0:\n            new.add(r.w * Z.product(r.body) / z, r.head, *r.body)", None)
v("twin-addeos-order", ["C20", "C01"], "cfglm.py", "    new.V.add(eos)\n    new.add(cfg.R.one, S, cfg.S, eos)\n    for r in cfg:\n        new.add(r.w, r.head, *r.body)\n    return new",
  "    for r in cfg:\n        new.add(r.w, r.head, *r.body)\n    new.add(cfg.R.one, S, cfg.S, eos)\n    new.V.add(eos)\n    return new", None)
v("twin-masktrim-temp", ["C01"], "cfglm.py", "        p = self.model.next_token_weights(self.model.chart(context)).trim()\n        return Float.chart({w: 1 for w in p})",
  "        cols = self.model.chart(context)\n        weights = self.model.next_token_weights(cols)\n        p = weights.trim()\n        return Float.chart({w: 1 for w in p})", None)
v("twin-solve-left-temp", ["C15", "C11"], "linear.py", "                for i in self.incoming[j]:\n                    enter[j] += sol[i] * self.E[i, j]",
  "                for i in self.incoming[j]:\n                    contribution = sol[i] * self.E[i, j]\n                    enter[j] += contribution", None)
v("twin-tocfg-loop-order", ["C17"], "wfsa/base.py", "            # add production rule for initial states\n            for i, w in self.I:\n                cfg.add(w, S, i)\n\n            # add production rule for final states\n            for i, w in self.F:\n                cfg.add(w, i)\n\n            # add other production rules\n            for i, a, j, w in self.arcs():\n                if a == EPSILON:\n                    cfg.add(w, i, j)\n                else:\n                    cfg.add(w, i, a, j)",
  "            for i, a, j, w in self.arcs():\n                if a != EPSILON:\n                    cfg.add(w, i, a, j)\n                else:\n                    cfg.add(w, i, j)\n            for i, w in self.F:\n                cfg.add(w, i)\n            for i, w in self.I:\n                cfg.add(w, S, i)", None)
v("twin-det-visited-rename", ["C13"], "wfsa/base.py", "        stack = []\n        visited = set()\n\n        Q = frozendict({i: w for i, w in self.I})\n        D.add_I(Q, self.R.one)\n        stack.append(Q)\n        visited.add(Q)\n\n        while stack:\n            P = stack.pop()\n            for a, Q, w in _powerarcs(P):\n                if Q not in visited:\n                    stack.append(Q)\n                    visited.add(Q)",
  "        todo = []\n        seen = set()\n\n        Q = frozendict({i: w for i, w in self.I})\n        D.add_I(Q, self.R.one)\n        todo.append(Q)\n        seen.add(Q)\n\n        while todo:\n            P = todo.pop()\n            for a, Q, w in _powerarcs(P):\n                if Q not in seen:\n                    todo.append(Q)\n                    seen.add(Q)", None)
v("twin-special-rules-rename", ["C09", "C03"], "cfg.py", "        for r in itertools.chain(self, special_rules):\n            if len(r.body) > 0:\n                R[r.body[0]].add(r)",
  "        for r in itertools.chain(self, special_rules):\n            if len(r.body) == 0:\n                continue\n            R[r.body[0]].add(r)", None)
v("twin-charcfg-rename-f", ["C19"], "lark_interface.py", "        def f(x):\n            return f\"N{_f(x)}\"\n\n        foo = CFG(Float, S=f(cfg.S), V=set())\n        for r in cfg:\n            foo.add(r.w * decay, f(r.head), *(f(y) for y in r.body))\n        del r",
  "        def f(x):\n            return f\"N{_f(x)}\"\n\n        foo = CFG(Float, S=f(cfg.S), V=set())\n        for rule in cfg:\n            foo.add(rule.w * decay, f(rule.head), *(f(y) for y in rule.body))", None)
v("twin-entropy-mul-temps", ["C16"], "semiring.py", "        return Entropy(\n            self.score[0] * other.score[0],\n            self.score[0] * other.score[1] + self.score[1] * other.score[0],\n        )",
  "        p1, r1 = self.score\n        p2, r2 = other.score\n        return Entropy(p1 * p2, p1 * r2 + r1 * p2)", None)

# ------------------------------------------------------------------ rules added after the second round of seeded changes
v("oneshot-hoisted-I", ["C10", "C09", "C12"], "fst.py", "        for P, w1 in self.I:\n            for Q, w2 in other.I:\n                PQ = (P, Q)",
  "        other_I = other.I\n        for P, w1 in self.I:\n            for Q, w2 in other_I:\n                PQ = (P, Q)", "GEN-ONESHOT")
v("oneshot-benign-list", ["C10", "C09", "C12"], "fst.py", "        for P, w1 in self.I:\n            for Q, w2 in other.I:\n                PQ = (P, Q)",
  "        other_I = list(other.I)\n        for P, w1 in self.I:\n            for Q, w2 in other_I:\n                PQ = (P, Q)", None)
v("frompairs-stale-exit", ["C10"], "fst.py", "            p.add_arc((i, max(len(xs), len(ys))), (EPSILON, EPSILON), 1, R.one)", "            p.add_arc((i, j + 1), (EPSILON, EPSILON), 1, R.one)", "FACTOR-FROMPAIRS")
v("fwdbwd-reverse-forward", ["C11", "C13", "C10"], "wfsa/base.py", "        return self.G.solve_right(self.stop)", "        return self.reverse.forward", "PIPE-FWDBWD")
v("min-early-exit", ["C14"], "wfsa/field_wfsa.py", "        return self.forward_conjugate().backward_conjugate()",
  "        fwd = self.forward_conjugate()\n        if fwd.dim == self.dim:\n            return self\n        return fwd.backward_conjugate()", "PIPE-MIN")
v("view-unfiltered", ["C13", "C12", "C10", "C11"], "wfsa/base.py", "        for q, w in self.start.items():\n            if w != self.R.zero:\n                yield q, w",
  "        yield from self.start.items()", "VIEW-FILTER")
v("view-benign-nested", ["C13", "C12"], "wfsa/base.py", "        for q, w in self.stop.items():\n            if w != self.R.zero:\n                yield q, w",
  "        for q, w in self.stop.items():\n            if w == self.R.zero:\n                continue\n            yield q, w", None)
v("fromstrings-by-position", ["C12"], "wfsa/base.py", "                m.set_arc(xs[:i], xs[i], xs[: i + 1], R.one)", "                m.set_arc(i, xs[i], i + 1, R.one)", "FACTOR-FROMSTRINGS")
v("fieldapi-update-rows", ["C12", "C11", "C13"], "wfsa/base.py", "        if keep_arcs:\n            for i, a, j, w in self.arcs():\n                m.add_arc(i, a, j, w)",
  "        if keep_arcs:\n            for i in self.delta:\n                m.delta[i].update(self.delta[i])", "FIELD-API")
v("liverules-trim", ["C17", "C20", "C06"], "cfg.py", "        new = self.spawn(S=self.S, R=self.R, V=set())\n\n        for r in self:", "        new = self.spawn(S=self.S, R=self.R, V=set())\n\n        for r in self.trim():", "LIVE-RULES")
v("tol-in-update", ["C08", "C06"], "cfg.py", "        def update(x, W):\n            change[bucket[x]][x] += W", "        def update(x, W):\n            if self.R.metric(self.R.zero, W) <= tol:\n                return\n            change[bucket[x]][x] += W", "TOL-SITE")
v("bytes-chain-stale", ["C17", "C19"], "wfsa/base.py", "                    byte_wfsa.add_arc(curr, bs[-1], j, w)", "                    byte_wfsa.add_arc(next_state, bs[-1], j, w)", "FACTOR-BYTES")
v("derivative-skip-removed", ["C03"], "cfg.py", "                if slash(r.head, a) in self.N:\n                    continue  # SKIP!\n", "", "ACCUM-DELTA")
v("compose-V-with-eps", ["C09", "C03"], "cfg.py", "new = self.spawn(S=new_start, V=fst.B - {EPSILON})", "new = self.spawn(S=new_start, V=set(fst.B))", "PIPE-COMPOSE")
v("compose-skip-selfloop", ["C09", "C03"], "cfg.py", "                        K = rhs[-1][-1]\n                        new.add(r.w, (I, r.head, K), *rhs)",
  "                        K = rhs[-1][-1]\n                        if rhs == [(I, r.head, K)]:\n                            continue\n                        new.add(r.w, (I, r.head, K), *rhs)", "TAB-SPECIAL")
v("memo-loop-assumes-root", ["C05"], "parse/cky.py", "            while n > 0 and prefix[: n - 1] not in self._chart:", "            while n > 1 and prefix[: n - 1] not in self._chart:", "MEMO-KEY")
v("arrays-inplace", ["C14"], "wfsa/field_wfsa.py", "            (w, VA, VB) = worklist.pop()\n", "            (w, VA, VB) = worklist.pop()\n            VA /= 2.0\n            VB /= 2.0\n", "EFFECT")
v("log-add-is-guards", ["C16", "C08"], "semiring.py", "        if self == Log.zero:\n            return other\n        if other == Log.zero:\n            return self\n        if self.score > other.score:",
  "        if self is Log.zero:\n            return other\n        if other is Log.zero:\n            return self\n        if self.score > other.score:", "SR-TABLE")
v("wfsacall-early-exit", ["C11"], "wfsa/base.py", "            prev = curr\n        total = self.R.zero", "            if len(curr) == 0:\n                return self.R.zero\n            prev = curr\n        total = self.R.zero", "PIPE-WFSACALL")

# ------------------------------------------------------------------ rules added in the third pass
v("memo-stale-depgraph", ["C08"], "cfg.py", "        deps = WeightedGraph(Boolean)\n        for r in self:\n            for y in r.body:\n                deps[r.head, y] += Boolean.one",
  "        return self._dependency_graph\n\n    @cached_property\n    def _dependency_graph(self):\n        deps = WeightedGraph(Boolean)\n        for r in self:\n            for y in r.body:\n                deps[r.head, y] += Boolean.one",
  "MEMO-STALE")
v("memo-stale-lazy-field", ["C08"], "cfg.py", "        deps = self.dependency_graph()\n        blocks = deps.blocks",
  "        if getattr(self, '_deps', None) is None:\n            self._deps = self.dependency_graph()\n        deps = self._deps\n        blocks = deps.blocks", "MEMO-STALE")
v("rescale-not-cumulative", ["C04"], "parse/earley_rescaled.py", "            next_col.rescale = num / den * prev_col.rescale", "            next_col.rescale = num / den", "FACTOR-RESCALE")
v("rescale-benign-commuted", ["C04"], "parse/earley_rescaled.py", "            next_col.rescale = num / den * prev_col.rescale", "            next_col.rescale = prev_col.rescale * num / den", None)
v("complement-flattened", ["C18"], "lark_interface.py", "            return charset - set(fsm.alphabet)",
  "            explicit = set().union(*(s for s in fsm.alphabet if s is not anything_else))\n            return charset - explicit", "COMPLEMENT")
v("complement-none", ["C18"], "lark_interface.py", "            return charset - set(fsm.alphabet)", "            return charset", "COMPLEMENT")
v("complement-benign-comp", ["C18"], "lark_interface.py", "            return charset - set(fsm.alphabet)",
  "            explicit = {s for s in fsm.alphabet if s is not anything_else}\n            return charset - explicit", None)
v("deadstates-one-sweep", ["C18"], "lark_interface.py", "        m.add_I(name(fsm.initial), 1)\n\n        rejection_states = [e for e in fsm.states if not fsm.islive(e)]",
  "        m.add_I(name(fsm.initial), 1)\n\n        live = set(fsm.finals)\n        for e in sorted(fsm.states, reverse=True):\n            if any(j in live for j in fsm.map[e].values()):\n                live.add(e)\n        rejection_states = fsm.states - live",
  "DEADSTATES")
v("deadstates-benign-set", ["C18"], "lark_interface.py", "        m.add_I(name(fsm.initial), 1)\n\n        rejection_states = [e for e in fsm.states if not fsm.islive(e)]",
  "        m.add_I(name(fsm.initial), 1)\n\n        rejection_states = {e for e in fsm.states if not fsm.islive(e)}", None)
v("tocfg-stale-IF", ["C17"], "wfsa/base.py", None, None, "NS-TOCFG", edits=[
  ("        V = self.alphabet - {EPSILON}\n        if not self.states.isdisjoint(V):", "        V = self.alphabet - {EPSILON}\n        initial = self.I\n        if not self.states.isdisjoint(V):"),
  ("        if recursion == \"right\":\n            # add production rule for initial states\n            for i, w in self.I:",
   "        if recursion == \"right\":\n            # add production rule for initial states\n            for i, w in initial:")])
v("maxplus-finite-zero", ["C16"], "semiring.py", "MaxPlus.zero = MaxPlus(-np.inf)", "MaxPlus.zero = MaxPlus(np.finfo(np.float64).min)", "SR-TABLE")
v("maxplus-benign-float-inf", ["C16"], "semiring.py", "MaxPlus.zero = MaxPlus(-np.inf)", "MaxPlus.zero = MaxPlus(float('-inf'))", None)
v("ucycle-some-cycle", ["C06"], "cfg.py", None, None, "GUARD-UCYCLE", edits=[
  ("        bucket = G.buckets\n\n        acyclic = set()", "        acyclic = set()"),
  ("        # run Lehmann's on each cylical SCC\n", "        # run Lehmann's on each cylical SCC\n        cyclic = set()\n"),
  ("                    continue\n\n            for X1, X2 in W:\n                new.add(W[X1, X2], X1, bot(X2))", "                    continue\n\n            cyclic.update(nodes)\n            for X1, X2 in W:\n                new.add(W[X1, X2], X1, bot(X2))"),
  ("            if len(r.body) == 1 and bucket.get(r.body[0]) == bucket[r.head]:", "            if len(r.body) == 1 and r.head in cyclic and r.body[0] in cyclic:")])
v("tarjan-benign-merged", ["C06"], "linear.py", None, None, None, edits=[
  ("                # node on the cycle in the DFS.\n                lowest[v] = min(lowest[v], lowest[w])\n", "                # node on the cycle in the DFS.\n"),
  ("            elif w in trail:\n                # Collapsing cycles.  If `w` comes before `v` in dfs and `w` is\n                # on the stack, then we've detected a cycle and we can start\n"
   "                # collapsing values in the SCC.  It might not be the maximal\n                # SCC. The min and stack will take care of that.\n                lowest[v] = min(lowest[v], lowest[w])",
   "            elif w not in trail:\n                continue\n            lowest[v] = min(lowest[v], lowest[w])")])
v("tarjan-merged-no-stack-test", ["C06"], "linear.py", None, None, "TARJAN", edits=[
  ("                # node on the cycle in the DFS.\n                lowest[v] = min(lowest[v], lowest[w])\n", "                # node on the cycle in the DFS.\n"),
  ("            elif w in trail:\n                # Collapsing cycles.  If `w` comes before `v` in dfs and `w` is\n                # on the stack, then we've detected a cycle and we can start\n"
   "                # collapsing values in the SCC.  It might not be the maximal\n                # SCC. The min and stack will take care of that.\n                lowest[v] = min(lowest[v], lowest[w])",
   "            lowest[v] = min(lowest[v], lowest[w])")])
_BYTES_OLD = ("                if len(bs) == 1:\n                    byte_wfsa.add_arc(i, bs[0], j, w)\n                else:  # Multi-byte transition\n"
              "                    curr = get_new_state()\n                    byte_wfsa.add_arc(i, bs[0], curr, self.R.one)\n"
              "                    for b in bs[1:-1]:\n                        next_state = get_new_state()\n"
              "                        byte_wfsa.add_arc(curr, b, next_state, self.R.one)\n                        curr = next_state\n"
              "                    byte_wfsa.add_arc(curr, bs[-1], j, w)")
_BYTES_UNIFORM = ("                curr = i\n                for b in bs[:-1]:\n                    next_state = get_new_state()\n"
                  "                    byte_wfsa.add_arc(curr, b, next_state, self.R.one)\n                    curr = next_state\n"
                  "                byte_wfsa.add_arc(curr, bs[-1], j, w)")
v("bytes-benign-uniform-chain", ["C17", "C19"], "wfsa/base.py", _BYTES_OLD, _BYTES_UNIFORM, None)
v("bytes-uniform-skips-first", ["C17", "C19"], "wfsa/base.py", _BYTES_OLD, _BYTES_UNIFORM.replace("bs[:-1]", "bs[1:-1]"), "FACTOR-BYTES")
v("bytes-uniform-stale-last", ["C17", "C19"], "wfsa/base.py", _BYTES_OLD, _BYTES_UNIFORM.replace("add_arc(curr, bs[-1], j, w)", "add_arc(next_state, bs[-1], j, w)"), "FACTOR-BYTES")

# ------------------------------------------------------------------ helper-inlined view (sa/inline.py)
_SOLVE_OLD = ("            # Compute the total weight of entering the block from the right at\n            # each entry point j in the block\n"
              "            enter = self.WeightType.chart()\n            for j in block:\n                enter[j] += b[j]\n"
              "                for k in self.outgoing[j]:\n                    enter[j] += self.E[j, k] * sol[k]\n")
_SOLVE_CALL = "            enter = self._enter_from_right(block, b, sol)\n"
_SOLVE_HELPER = ("    def _enter_from_right(self, block, b, sol):\n        enter = self.WeightType.chart()\n        for j in block:\n            enter[j] += b[j]\n"
                 "            for k in self.outgoing[j]:\n                enter[j] += self.E[j, k] * sol[k]\n        return enter\n\n    def _closure(self, A, N):")
v("inline-benign-extracted-method", ["C15", "C08", "C06"], "linear.py", None, None, None,
  edits=[(_SOLVE_OLD, _SOLVE_CALL), ("    def _closure(self, A, N):", _SOLVE_HELPER)])
v("inline-extracted-method-broken", ["C15", "C08", "C06"], "linear.py", None, None, "ANALYSIS-ERROR",
  edits=[(_SOLVE_OLD, _SOLVE_CALL), ("    def _closure(self, A, N):", _SOLVE_HELPER.replace("self.E[j, k] * sol[k]", "sol[k] * self.E[j, k]"))])

# ------------------------------------------------------------------ rules added after the third round of seeded changes
v("worklist-seed-unmarked", ["C13", "C11", "C12"], "wfsa/base.py", "        stack.append(Q)\n        visited.add(Q)\n\n        while stack:", "        stack.append(Q)\n\n        while stack:", "WORKLIST-MARK")
v("worklist-benign-literal", ["C13", "C11", "C12"], "wfsa/base.py", "        stack = []\n        visited = set()\n\n        Q = frozendict({i: w for i, w in self.I})\n        D.add_I(Q, self.R.one)\n        stack.append(Q)\n        visited.add(Q)\n",
  "        Q = frozendict({i: w for i, w in self.I})\n        D.add_I(Q, self.R.one)\n        stack = [Q]\n        visited = {Q}\n", None)
v("worklist-accessible-unmarked", ["C13", "C11"], "wfsa/base.py", "        visited = set(stack)\n        while stack:", "        visited = set()\n        while stack:", "WORKLIST-MARK")
v("param-not-forwarded", ["C19", "C18"], "lark_interface.py", "    def byte_cfg(self, *args, **kwargs):\n        return self._char_cfg(*args, **kwargs, to_bytes=True)",
  "    def byte_cfg(self, decay=1, delimiter=\"\", charset=\"core\", recursion=\"right\"):\n        return self._char_cfg(decay=decay, delimiter=delimiter, recursion=recursion, to_bytes=True)", "PARAM-USED")
v("param-benign-explicit", ["C19", "C18"], "lark_interface.py", "    def byte_cfg(self, *args, **kwargs):\n        return self._char_cfg(*args, **kwargs, to_bytes=True)",
  "    def byte_cfg(self, decay=1, delimiter=\"\", charset=\"core\", recursion=\"right\"):\n        return self._char_cfg(decay=decay, delimiter=delimiter, charset=charset, recursion=recursion, to_bytes=True)", None)
v("param-shadowed", ["C20", "C01", "C04"], "cfglm.py", "    S = _gen_nt(\"<START>\")", "    eos = EOS\n    S = _gen_nt(\"<START>\")", "PARAM-USED", optional_anchor=True)
v("loop-carry-default-outside", ["C14"], "wfsa/field_wfsa.py", "            for a in alphabet:\n                ua = self.arcs[a] @ VA if a in self.arcs else 0 * VA\n                ub = B.arcs[a] @ VB if a in B.arcs else 0 * VB\n",
  "            ua, ub = 0 * VA, 0 * VB\n            for a in alphabet:\n                if a in self.arcs:\n                    ua = self.arcs[a] @ VA\n                if a in B.arcs:\n                    ub = B.arcs[a] @ VB\n", "LOOP-CARRY")
v("loop-carry-benign-default-inside", ["C14"], "wfsa/field_wfsa.py", "            for a in alphabet:\n                ua = self.arcs[a] @ VA if a in self.arcs else 0 * VA\n                ub = B.arcs[a] @ VB if a in B.arcs else 0 * VB\n",
  "            for a in alphabet:\n                ua, ub = 0 * VA, 0 * VB\n                if a in self.arcs:\n                    ua = self.arcs[a] @ VA\n                if a in B.arcs:\n                    ub = B.arcs[a] @ VB\n", None)
v("builder-break-locnorm", ["C20"], "cfglm.py", "        if Z[r.head] == 0:\n            continue", "        if Z[r.head] == 0:\n            break", "BUILDER-BREAK", optional_anchor=True)
v("builder-break-regex", ["C18", "C19"], "lark_interface.py", "            if K == 0:\n                continue\n            if i in fsm.finals:\n                m.add_F(name(i), 1 / K)", "            if K == 0:\n                break\n            if i in fsm.finals:\n                m.add_F(name(i), 1 / K)", "BUILDER-BREAK")
v("identity-start-symbol", ["C02", "C06", "C01"], "cfg.py", "                null_weight[x] == self.R.zero or x == self.S", "                null_weight[x] == self.R.zero or x is self.S", "GEN-IDENTITY")
v("tol-onesided", ["C14"], "wfsa/field_wfsa.py", "                if not approx_equal(u - q, u):\n                    worklist.append(u)\n                    basis.append(q)\n        return np.array(basis)",
  "                if q.max() > 1e-8 + 1e-5 * u.max():\n                    worklist.append(u)\n                    basis.append(q)\n        return np.array(basis)", "TOL-TWOSIDED")
v("tol-benign-abs", ["C14"], "wfsa/field_wfsa.py", "                if not approx_equal(u - q, u):\n                    worklist.append(u)\n                    basis.append(q)\n        return np.array(basis)",
  "                if np.abs(q).max() > 1e-8 + 1e-5 * np.abs(u).max():\n                    worklist.append(u)\n                    basis.append(q)\n        return np.array(basis)", None)
v("lark-vocab-filtered", ["C19"], "lark_interface.py", "V={t.name for t in self.terminals})", "V={t.name for t in self.terminals if t.name not in self.ignore_terms})", "LARK-VOCAB")
v("graph-E-skips-selfloops", ["C11", "C13", "C12"], "wfsa/base.py", "            if a == EPSILON:\n                E[i, j] += w", "            if a == EPSILON and i != j:\n                E[i, j] += w", "ACCUM-GRAPH")
v("graph-nodes-under-zero-test", ["C15", "C08", "C06"], "linear.py", "        self.N.add(i)\n        self.N.add(j)\n        if value != self.WeightType.zero:\n", "        if value != self.WeightType.zero:\n            self.N.update(item)\n", "ACCUM-GRAPH")
v("closure-buffer-not-cleared", ["C15", "C11", "C06"], "linear.py", "        for j in N:\n            new.clear()\n", "        for j in N:\n", "FACTOR-SOLVE")
v("closure-benign-fresh-buffer", ["C15", "C11", "C06"], "linear.py", "        for j in N:\n            new.clear()\n", "        for j in N:\n            new = self.WeightType.chart()\n", None)
v("compose-start-from-arcs", ["C09", "C03"], "cfg.py", "        start = {I for (I, _) in C}", "        start = {i for (i, _, _, _) in fst.arcs()}", "TAB-SPECIAL")
v("compose-benign-start-states", ["C09", "C03"], "cfg.py", "        start = {I for (I, _) in C}", "        start = set(fst.states)", None)
v("bytes-eps-selfloop-dropped", ["C17", "C19"], "wfsa/base.py", "            if a == EPSILON:\n                byte_wfsa.add_arc(i, a, j, w)", "            if a == EPSILON:\n                if i != j:\n                    byte_wfsa.add_arc(i, a, j, w)", "FACTOR-BYTES")
v("cfg-bytes-piecewise", ["C17", "C19"], "cfg.py", "                    bs = list(x.encode(\"utf-8\"))\n                    for b in bs:\n                        new.V.add(b)\n", "                    for c in x:\n                        bs = list(c.encode(\"utf-8\"))\n                        new.V.update(bs)\n", "ENC-UTF8")
v("icky-base-tuple-key", ["C02", "C04", "C01"], "parse/cky.py", "            tmp[0][0][self.cfg.S] = self.nullary", "            tmp[0][0, self.cfg.S] = self.nullary", "FACTOR-ICKY")
v("order-from-dependency-graph", ["C02", "C04"], "parse/earley.py", "self.order = cfg._unary_graph_transpose().buckets", "self.order = cfg.dependency_graph().buckets", "DEP-ORDER")
v("memo-evict-during-fill", ["C05", "C04"], "parse/cky.py", "            for m in range(n, len(prefix) + 1):\n                p = prefix[:m]", "            if len(self._chart) > 1000:\n                self.clear_cache()\n            for m in range(n, len(prefix) + 1):\n                p = prefix[:m]", "MEMO-KEY")
v("unfold-remove-by-equality", ["C06", "C02"], "cfg.py", "        for j, r in enumerate(self):\n            if j != i:\n                new.add(r.w, r.head, *r.body)", "        rest = list(self.rules)\n        rest.remove(s)\n        for r in rest:\n            new.add(r.w, r.head, *r.body)", "MULTISET")
v("rule-eq-ignores-weight", ["C06", "C02"], "cfg.py", "            isinstance(other, Rule)\n            and self.w == other.w\n", "            isinstance(other, Rule)\n", "MULTISET")
v("nullable-by-metric", ["C06", "C08"], "cfg.py", "                null_weight[x] == self.R.zero or x == self.S", "                self.R.metric(null_weight[x], self.R.zero) <= 1e-12 or x == self.S", "TOL-SITE")
v("separate-start-consults-trim", ["C07", "C06"], "cfg.py", "        if self.S in {y for r in self for y in r.body}:", "        if self.S in {y for r in self.trim() for y in r.body}:", "LIVE-RULES")
v("derivative-level-dropped", ["C03"], "cfg.py", "                        slash(r.body[k], a),", "                        Slash(r.body[k], a, 0),", "ACCUM-DELTA")

# ------------------------------------------------------------------ fresh-name wrappers (C06)
v("wrappers-bot-namedtuple", ["C06"], "cfg.py",
  None, None, "NS-WRAPPERS",
  edits=[('Slash = namedtuple("Slash", "Y, Z, i")\n', 'Slash = namedtuple("Slash", "Y, Z, i")\n\nBot = namedtuple("Bot", "x")\n'), ("            return x if x in acyclic else (x, \"bot\")", "            return x if x in acyclic else Bot(x)")])
v("wrappers-benign-tagged", ["C06"], "cfg.py",
  "            return x if x in acyclic else (x, \"bot\")", "            return x if x in acyclic else (x, \"bottom\")", None)
v("wrappers-benign-bot2", ["C06"], "cfg.py",
  None, None, None,
  edits=[('Slash = namedtuple("Slash", "Y, Z, i")\n', 'Slash = namedtuple("Slash", "Y, Z, i")\n\nBot = namedtuple("Bot", "x, tag")\n'), ("            return x if x in acyclic else (x, \"bot\")", "            return x if x in acyclic else Bot(x, \"bot\")")])

# ------------------------------------------------------------------ round-5 rules: COMPOSE-ARCS (C09), ACCUM-DELTA case split (C03)
v("compose-arcs-skip-epsloop", ["C09"], "cfg.py", "        for i, (a, _), j, _ in fst.arcs():\n            A.add((i, a, (), j))",
  "        for i, (a, b), j, _ in fst.arcs():\n            if a == EPSILON and b == EPSILON and i == j:\n                continue\n            A.add((i, a, (), j))", "COMPOSE-ARCS")
v("compose-arcs-pass2-elif", ["C09"], "cfg.py", "            if b == EPSILON:\n                new.add(w, (i, a, j))\n            else:\n                new.add(w, (i, a, j), b)",
  "            if b == EPSILON:\n                new.add(w, (i, a, j))\n            elif a != EPSILON:\n                new.add(w, (i, a, j), b)", "COMPOSE-ARCS")
v("compose-arcs-benign-names", ["C09"], "cfg.py", "        for i, (a, _), j, _ in fst.arcs():\n            A.add((i, a, (), j))",
  "        for p, (x, _), q, _ in fst.arcs():\n            A.add((p, x, (), q))", None)
v("derivative-skip-selfloop", ["C03"], "cfg.py", "                        D.add(delta * r.w, slash(r.head, a), *r.body[k + 1 :])\n                else:",
  "                        D.add(delta * r.w, slash(r.head, a), *r.body[k + 1 :])\n                elif y == r.head and len(r.body) == 1:\n                    pass\n                else:", "ACCUM-DELTA")
