"""Syntax-directed helpers: guard contexts (dominating facts), local
definitions, method chains, factor multisets, loop nests."""

from __future__ import annotations

import ast

from .model import parent, ancestors, const_truth, norm, walk_live, is_dead

FUNC_TYPES = (ast.FunctionDef, ast.AsyncFunctionDef, ast.Lambda)
LOOP_TYPES = (ast.For, ast.While, ast.AsyncFor)
EXIT_TYPES = (ast.Return, ast.Raise, ast.Continue, ast.Break)


# --------------------------------------------------------------------------
# blocks


def block_exits(stmts):
    """True if control never falls off the end of this statement list."""
    if not stmts:
        return False
    last = stmts[-1]
    if isinstance(last, EXIT_TYPES):
        return True
    if isinstance(last, ast.If):
        tv = const_truth(last.test)
        if tv is True:
            return block_exits(last.body)
        if tv is False:
            return block_exits(last.orelse)
        return block_exits(last.body) and block_exits(last.orelse)
    if isinstance(last, ast.Assert) and const_truth(last.test) is False:
        return True
    return False


def stmt_lists(node):
    """(fieldname, list) for every statement list directly owned by `node`."""
    out = []
    for fld in ("body", "orelse", "finalbody"):
        v = getattr(node, fld, None)
        if isinstance(v, list) and v and isinstance(v[0], ast.stmt):
            out.append((fld, v))
    for h in getattr(node, "handlers", []) or []:
        out.append(("handler", h.body))
    if isinstance(node, ast.Match):
        for c in node.cases:
            out.append(("case", c.body))
    return out


class Fact:
    __slots__ = ("test", "pol", "origin", "kind")

    def __init__(self, test, pol, origin, kind):
        self.test = test
        self.pol = pol
        self.origin = origin
        self.kind = kind

    def __repr__(self):
        return f"{'' if self.pol else 'not '}({norm(self.test)})"


def _root_names(expr):
    bound = set()
    for n in ast.walk(expr):
        if isinstance(n, ast.comprehension):
            for t in ast.walk(n.target):
                if isinstance(t, ast.Name):
                    bound.add(t.id)
        elif isinstance(n, ast.Lambda):
            for a in n.args.args:
                bound.add(a.arg)
    return {n.id for n in ast.walk(expr) if isinstance(n, ast.Name)} - bound


def _stores_in(node, into_nested=False):
    """Names stored (assigned, aug-assigned, loop targets, with-as, del, walrus) inside node."""
    out = set()
    for n in walk_live(node, into_nested=into_nested):
        if isinstance(n, ast.Name) and isinstance(n.ctx, (ast.Store, ast.Del)):
            # comprehension targets do not leak; skip them
            p = parent(n)
            comp = False
            q = n
            while p is not None and not isinstance(p, ast.stmt):
                if isinstance(p, ast.comprehension) and _within(q, p.target):
                    comp = True
                    break
                q, p = p, parent(p)
            if not comp:
                out.add(n.id)
        elif isinstance(n, (ast.Global, ast.Nonlocal)):
            out.update(n.names)
    return out


def _within(node, root):
    n = node
    while n is not None:
        if n is root:
            return True
        n = parent(n)
    return False


def pos(node):
    return (node.lineno, node.col_offset)


def end_pos(node):
    return (node.end_lineno, node.end_col_offset)


def enclosing_function(node):
    for a in ancestors(node):
        if isinstance(a, FUNC_TYPES):
            return a
    return None


def enclosing_loops(node, stop=None):
    out = []
    for a in ancestors(node):
        if a is stop or isinstance(a, (ast.FunctionDef, ast.AsyncFunctionDef)):
            break
        if isinstance(a, LOOP_TYPES):
            out.append(a)
    return out


def _fact_still_valid(fact, node, fnode):
    """No name mentioned by the fact is re-bound between the guard and the use."""
    names = _root_names(fact.test)
    if not names:
        return True
    g = fact.origin
    gpos = end_pos(fact.test)
    npos = pos(node)
    # (a) lexical stores between guard test and node
    for n in walk_live(fnode):
        if isinstance(n, ast.Name) and isinstance(n.ctx, (ast.Store, ast.Del)) and n.id in names:
            if gpos <= pos(n) < npos:
                # the For-target of a loop enclosing both is not "between"
                if _is_comprehension_target(n):
                    continue
                return False
    # (b) loops enclosing node but not the guard: any store inside them
    loops_n = enclosing_loops(node)
    for L in loops_n:
        if _within(g, L):
            continue
        if names & _stores_in(L):
            return False
    return True


def _is_comprehension_target(name_node):
    q, p = name_node, parent(name_node)
    while p is not None and not isinstance(p, ast.stmt):
        if isinstance(p, ast.comprehension) and _within(q, p.target):
            return True
        q, p = p, parent(p)
    return False


def guard_facts(node, validate=True):
    """Facts (test, polarity) known to hold whenever `node` is evaluated.

    Sources: enclosing if/elif/else, IfExp, and/or short-circuit, comprehension
    conditions, while tests, earlier sibling `if t: <exits>` in every enclosing
    block (up to the function boundary) and earlier `assert`s.
    """
    facts = []
    fnode = enclosing_function(node)
    child = node
    for a in ancestors(node):
        if isinstance(a, ast.If):
            if any(child is s for s in a.body):
                facts.append(Fact(a.test, True, a, "if"))
            elif any(child is s for s in a.orelse):
                facts.append(Fact(a.test, False, a, "else"))
        elif isinstance(a, ast.IfExp):
            if child is a.body:
                facts.append(Fact(a.test, True, a, "ifexp"))
            elif child is a.orelse:
                facts.append(Fact(a.test, False, a, "ifexp-else"))
        elif isinstance(a, ast.BoolOp):
            k = next((i for i, v in enumerate(a.values) if v is child), None)
            if k:
                for v in a.values[:k]:
                    facts.append(Fact(v, isinstance(a.op, ast.And), a, "boolop"))
        elif isinstance(a, ast.comprehension):
            if child in a.ifs:
                j = a.ifs.index(child)
                for t in a.ifs[:j]:
                    facts.append(Fact(t, True, a, "comp-if"))
        elif isinstance(a, (ast.ListComp, ast.SetComp, ast.GeneratorExp, ast.DictComp)):
            gens = a.generators
            if child in gens:
                k = gens.index(child)
                for g in gens[:k]:
                    for t in g.ifs:
                        facts.append(Fact(t, True, a, "comp-if"))
            else:
                for g in gens:
                    for t in g.ifs:
                        facts.append(Fact(t, True, a, "comp-if"))
        elif isinstance(a, ast.While):
            if any(child is s for s in a.body):
                facts.append(Fact(a.test, True, a, "while"))
        # earlier siblings in statement lists of `a`
        if isinstance(child, ast.stmt):
            for _, lst in stmt_lists(a):
                idx = next((i for i, s in enumerate(lst) if s is child), None)
                if idx is None:
                    continue
                for s in lst[:idx]:
                    if isinstance(s, ast.If):
                        b, o = block_exits(s.body), block_exits(s.orelse)
                        if b and not o:
                            facts.append(Fact(s.test, False, s, "early-exit"))
                        elif o and not b:
                            facts.append(Fact(s.test, True, s, "early-exit-else"))
                    elif isinstance(s, ast.Assert):
                        facts.append(Fact(s.test, True, s, "assert"))
        if isinstance(a, (ast.FunctionDef, ast.AsyncFunctionDef)):
            break
        child = a
    if validate and fnode is not None:
        facts = [f for f in facts if _fact_still_valid(f, node, fnode)]
    return expand_facts(facts)


def expand_facts(facts):
    """Split conjunctions that hold / disjunctions that fail into their parts;
    unwrap `not`."""
    out = []
    work = list(facts)
    while work:
        f = work.pop(0)
        t = f.test
        if isinstance(t, ast.UnaryOp) and isinstance(t.op, ast.Not):
            work.append(Fact(t.operand, not f.pol, f.origin, f.kind))
            continue
        if isinstance(t, ast.BoolOp):
            if isinstance(t.op, ast.And) and f.pol:
                work.extend(Fact(v, True, f.origin, f.kind) for v in t.values)
                continue
            if isinstance(t.op, ast.Or) and not f.pol:
                work.extend(Fact(v, False, f.origin, f.kind) for v in t.values)
                continue
        out.append(f)
    return out


# --------------------------------------------------------------------------
# fact predicates


def cmp_parts(test):
    """(left, op, right) for a single binary comparison, else None."""
    if isinstance(test, ast.Compare) and len(test.ops) == 1:
        return test.left, test.ops[0], test.comparators[0]
    return None


_NEG = {ast.Eq: ast.NotEq, ast.NotEq: ast.Eq, ast.Lt: ast.GtE, ast.GtE: ast.Lt, ast.Gt: ast.LtE, ast.LtE: ast.Gt,
        ast.In: ast.NotIn, ast.NotIn: ast.In, ast.Is: ast.IsNot, ast.IsNot: ast.Is}
_FLIP = {ast.Lt: ast.Gt, ast.Gt: ast.Lt, ast.LtE: ast.GtE, ast.GtE: ast.LtE, ast.Eq: ast.Eq, ast.NotEq: ast.NotEq}


def fact_cmp(f):
    """Normalise a comparison fact to (left, optype, right) with polarity folded in."""
    c = cmp_parts(f.test)
    if c is None:
        return None
    l, op, r = c
    t = type(op)
    if not f.pol:
        t = _NEG.get(t)
        if t is None:
            return None
    return l, t, r


def is_len_of(expr, target_norm):
    return (isinstance(expr, ast.Call) and isinstance(expr.func, ast.Name) and expr.func.id == "len"
            and len(expr.args) == 1 and norm(expr.args[0]) == target_norm)


def int_const(expr):
    if isinstance(expr, ast.Constant) and isinstance(expr.value, int) and not isinstance(expr.value, bool):
        return expr.value
    if isinstance(expr, ast.UnaryOp) and isinstance(expr.op, ast.USub):
        v = int_const(expr.operand)
        return -v if v is not None else None
    return None


def len_bounds(facts, target_norm):
    """(lo, hi) bounds on len(<target>) implied by the facts (inclusive; None = unbounded).
    Also understands `X == ()`, `not X`, `X` (truthiness), and exclusion of single values."""
    lo, hi = 0, None
    excluded = set()
    for f in facts:
        t = f.test
        # truthiness of the sequence itself
        if norm(t) == target_norm:
            if f.pol:
                lo = max(lo, 1)
            else:
                hi = 0 if hi is None else min(hi, 0)
            continue
        c = fact_cmp(f)
        if c is None:
            continue
        l, op, r = c
        if is_len_of(r, target_norm) and int_const(l) is not None and op in _FLIP:
            l, r, op = r, l, _FLIP[op]
        if is_len_of(l, target_norm) and int_const(r) is not None:
            k = int_const(r)
            if op is ast.Eq:
                lo, hi = max(lo, k), k if hi is None else min(hi, k)
            elif op is ast.NotEq:
                excluded.add(k)
            elif op is ast.Lt:
                hi = k - 1 if hi is None else min(hi, k - 1)
            elif op is ast.LtE:
                hi = k if hi is None else min(hi, k)
            elif op is ast.Gt:
                lo = max(lo, k + 1)
            elif op is ast.GtE:
                lo = max(lo, k)
            continue
        # X == ()  /  X != ()
        for a, b in ((l, r), (r, l)):
            if norm(a) == target_norm and isinstance(b, ast.Tuple) and not b.elts or (
                norm(a) == target_norm and isinstance(b, ast.Call) and isinstance(b.func, ast.Name)
                and b.func.id == "tuple" and not b.args
            ):
                if op is ast.Eq:
                    hi = 0 if hi is None else min(hi, 0)
                elif op is ast.NotEq:
                    excluded.add(0)
    while lo in excluded:
        lo += 1
    while hi is not None and hi in excluded and hi >= lo:
        hi -= 1
    return lo, hi


def has_fact(facts, pred):
    return any(pred(f) for f in facts)


# --------------------------------------------------------------------------
# local definitions


def own_nodes(fnode):
    """Live nodes of a function, not descending into nested defs/classes."""
    return walk_live(fnode)


def assignments_to(fnode, name):
    """All (stmt, value_expr_or_None) binding `name` in the function (live code, own scope)."""
    out = []
    for n in own_nodes(fnode):
        if isinstance(n, ast.Assign):
            for t in n.targets:
                if isinstance(t, ast.Name) and t.id == name:
                    out.append((n, n.value))
                elif isinstance(t, (ast.Tuple, ast.List)):
                    if isinstance(n.value, (ast.Tuple, ast.List)) and len(n.value.elts) == len(t.elts) \
                            and not any(isinstance(x, ast.Starred) for x in list(t.elts) + list(n.value.elts)):
                        for te, ve in zip(t.elts, n.value.elts):
                            if isinstance(te, ast.Name) and te.id == name:
                                out.append((n, ve))
                            elif any(isinstance(e, ast.Name) and e.id == name for e in ast.walk(te)):
                                out.append((n, None))
                        continue
                    for e in ast.walk(t):
                        if isinstance(e, ast.Name) and e.id == name:
                            out.append((n, None))
        elif isinstance(n, ast.AnnAssign) and isinstance(n.target, ast.Name) and n.target.id == name:
            out.append((n, n.value))
        elif isinstance(n, ast.AugAssign) and isinstance(n.target, ast.Name) and n.target.id == name:
            out.append((n, None))
        elif isinstance(n, (ast.For, ast.AsyncFor)):
            for e in ast.walk(n.target):
                if isinstance(e, ast.Name) and e.id == name:
                    out.append((n, None))
        elif isinstance(n, ast.NamedExpr) and isinstance(n.target, ast.Name) and n.target.id == name:
            out.append((n, n.value))
        elif isinstance(n, (ast.With, ast.AsyncWith)):
            for it in n.items:
                if it.optional_vars is not None:
                    for e in ast.walk(it.optional_vars):
                        if isinstance(e, ast.Name) and e.id == name:
                            out.append((n, None))
    return out


def single_def(fnode, name):
    """Value expression if `name` has exactly one plain assignment in the function and is not a parameter."""
    a = fnode.args
    params = {x.arg for x in a.posonlyargs + a.args + a.kwonlyargs}
    if a.vararg:
        params.add(a.vararg.arg)
    if a.kwarg:
        params.add(a.kwarg.arg)
    if name in params:
        return None
    asg = assignments_to(fnode, name)
    if len(asg) == 1 and asg[0][1] is not None:
        return asg[0][1]
    return None


def reaching_def(fnode, name, at):
    """Value of the lexically last plain assignment to `name` that precedes `at`
    in the same function; None when there is none or it is not a plain assignment.
    (Used for straight-line aliasing such as `self = self.cnf`.)"""
    best = None
    for st, val in assignments_to(fnode, name):
        if pos(st) < pos(at):
            if best is None or pos(st) > pos(best[0]):
                best = (st, val)
    return best


def deref(fnode, expr, depth=0):
    """Follow single-definition local aliases:  `one = self.R.one` ... `one` -> `self.R.one`."""
    if depth > 6:
        return expr
    if isinstance(expr, ast.Name):
        v = single_def(fnode, expr.id)
        if v is not None:
            return deref(fnode, v, depth + 1)
        # closure variable of an enclosing function
        outer = enclosing_function(fnode)
        if outer is not None and not assignments_to(fnode, expr.id):
            a = fnode.args
            params = {x.arg for x in a.posonlyargs + a.args + a.kwonlyargs}
            if expr.id not in params and isinstance(outer, (ast.FunctionDef, ast.AsyncFunctionDef)):
                v = single_def(outer, expr.id)
                if v is not None:
                    return deref(outer, v, depth + 1)
    return expr


# --------------------------------------------------------------------------
# method chains and calls


def chain_of(expr):
    """`a.b(x).c.d()` -> (base_expr, ['b()', 'c', 'd()']); calls are marked with '()'."""
    parts = []
    e = expr
    while True:
        if isinstance(e, ast.Call) and isinstance(e.func, ast.Attribute):
            parts.append(e.func.attr + "()")
            e = e.func.value
        elif isinstance(e, ast.Attribute):
            parts.append(e.attr)
            e = e.value
        else:
            break
    parts.reverse()
    return e, parts


def chain_names(expr):
    return [p.rstrip("()") for p in chain_of(expr)[1]]


def full_chain(fnode, expr, at=None, depth=0):
    """Method chain through intermediate local assignments:
    `c = self.chart(ctx)`; `self.next(c).normalize()` -> base self: [...]."""
    base, parts = chain_of(expr)
    if depth < 6 and isinstance(base, ast.Name):
        v = None
        if at is not None:
            rd = reaching_def(fnode, base.id, at)
            if rd is not None and rd[1] is not None:
                v = rd[1]
                at2 = rd[0]
        else:
            v = single_def(fnode, base.id)
            at2 = None
        if v is not None and not (isinstance(v, ast.Name) and v.id == base.id):
            b2, p2 = full_chain(fnode, v, at2, depth + 1)
            return b2, p2 + parts
    return base, parts


def calls_named(fnode, attr, into_nested=False):
    out = []
    for n in walk_live(fnode, into_nested=into_nested):
        if isinstance(n, ast.Call):
            f = n.func
            if isinstance(f, ast.Attribute) and f.attr == attr:
                out.append(n)
            elif isinstance(f, ast.Name) and f.id == attr:
                out.append(n)
    return out


def call_name(call):
    f = call.func
    if isinstance(f, ast.Attribute):
        return f.attr
    if isinstance(f, ast.Name):
        return f.id
    return None


def receiver(call):
    f = call.func
    return f.value if isinstance(f, ast.Attribute) else None


# --------------------------------------------------------------------------
# factor multisets


def factors(expr):
    """Factor multiset of a product/quotient expression.

    Returns (num, den): lists of normalised factor texts.  `a * b / c` ->
    ([a, b], [c]);  `x ** (-1) * w` -> ([w], [x]); `1 / K` -> (['1'], [K]).
    Parenthesisation and operand order do not matter (commutative reading)."""
    num, den = [], []

    def go(e, inv):
        if isinstance(e, ast.BinOp) and isinstance(e.op, ast.Mult):
            go(e.left, inv)
            go(e.right, inv)
        elif isinstance(e, ast.BinOp) and isinstance(e.op, ast.Div):
            go(e.left, inv)
            go(e.right, not inv)
        elif isinstance(e, ast.BinOp) and isinstance(e.op, ast.Pow) and int_const(e.right) is not None:
            k = int_const(e.right)
            for _ in range(abs(k)):
                go(e.left, inv if k > 0 else not inv)
        else:
            (den if inv else num).append(norm(e))

    go(expr, False)
    return sorted(num), sorted(den)


def factor_nodes(expr):
    """Like `factors` but returns the AST nodes: (num_nodes, den_nodes)."""
    num, den = [], []

    def go(e, inv):
        if isinstance(e, ast.BinOp) and isinstance(e.op, ast.Mult):
            go(e.left, inv)
            go(e.right, inv)
        elif isinstance(e, ast.BinOp) and isinstance(e.op, ast.Div):
            go(e.left, inv)
            go(e.right, not inv)
        elif isinstance(e, ast.BinOp) and isinstance(e.op, ast.Pow) and int_const(e.right) is not None:
            k = int_const(e.right)
            for _ in range(abs(k)):
                go(e.left, inv if k > 0 else not inv)
        else:
            (den if inv else num).append(e)

    go(expr, False)
    return num, den


def summands(expr):
    out = []

    def go(e):
        if isinstance(e, ast.BinOp) and isinstance(e.op, ast.Add):
            go(e.left)
            go(e.right)
        else:
            out.append(e)

    go(expr)
    return out


# --------------------------------------------------------------------------
# misc


def is_attr_chain(expr, *names):
    """expr is  <anything>.n1.n2...  ending with the given attribute names."""
    e = expr
    for nm in reversed(names):
        if not (isinstance(e, ast.Attribute) and e.attr == nm):
            return False
        e = e.value
    return True


def ends_with_attr(expr, name):
    return isinstance(expr, ast.Attribute) and expr.attr == name


def is_name(expr, name):
    return isinstance(expr, ast.Name) and expr.id == name


def loops_around(node):
    return enclosing_loops(node)


def live_stmts(fnode):
    return [n for n in own_nodes(fnode) if isinstance(n, ast.stmt) and n is not fnode]


def stmt_of(node):
    n = node
    while n is not None and not isinstance(n, ast.stmt):
        n = parent(n)
    return n


# --------------------------------------------------------------------------
# canonical expressions: local temporaries inlined, loop-bound element variables written as indexed accesses
#   for i, y in enumerate(S)      y  ->  S[i]
#   for a, b in zip(A, B)         a  ->  A[§n], b -> B[§n]      (§n: synthetic index of that loop)
#   for k, v in D.items()         v  ->  D[k]        (k may be a tuple target: D[i, j])
#   t = <pure expression>         t  ->  <pure expression>      (single definition in the function)
# Rules compare canonical texts, so introducing/inlining a temporary or switching between these loop idioms is not
# a difference.

_IMPURE_CALLS = {"pop", "popitem", "popleft", "append", "add", "extend", "update", "next", "send", "_gen_nt", "get_new_state"}


def _pure(e):
    for n in ast.walk(e):
        if isinstance(n, ast.Call):
            nm = call_name(n)
            if nm in _IMPURE_CALLS or (nm or "").startswith("add_") or (nm or "").startswith("set_"):
                return False
            # constructor / allocation calls are not aliases of one value
            if isinstance(n.func, ast.Name) and (n.func.id[:1].isupper() or n.func.id in ("set", "list", "dict", "defaultdict")) and not n.args:
                return False
        if isinstance(n, (ast.Yield, ast.YieldFrom, ast.Await, ast.NamedExpr, ast.Lambda, ast.ListComp, ast.SetComp, ast.DictComp, ast.GeneratorExp)):
            if isinstance(n, (ast.GeneratorExp, ast.ListComp)):
                continue
            return False
    return True


_VALUE_BUILTINS = {"all", "any", "len", "min", "max", "sum", "abs", "isinstance", "sorted", "bool", "int", "float", "str", "range", "enumerate", "zip"}


def _inlinable(fnode, v):
    """may the single definition `t = v` be substituted for `t`?  Value-like expressions only: attribute/subscript
    chains, arithmetic, comparisons, tuples, value-returning builtins and calls of local helper functions.  Results of
    method calls and freshly allocated containers keep their name (they denote an object, not a formula)."""
    if not _pure(v):
        return False
    if isinstance(v, ast.Call):
        fn = v.func
        if isinstance(fn, ast.Name):
            if fn.id in _VALUE_BUILTINS:
                return True
            # nested helper of this function
            return any(isinstance(n, (ast.FunctionDef, ast.Lambda)) and getattr(n, "name", None) == fn.id for n in ast.walk(fnode)) or \
                any(isinstance(n, ast.Assign) and isinstance(n.value, ast.Lambda) and any(isinstance(t, ast.Name) and t.id == fn.id for t in n.targets)
                    for n in ast.walk(fnode))
        return False
    if isinstance(v, (ast.List, ast.Set, ast.Dict, ast.ListComp, ast.SetComp, ast.DictComp, ast.GeneratorExp)):
        return False
    return True


def _loop_binding(fnode, name, at):
    """(kind, loop) if `name` is bound as a target of a loop (or comprehension generator) enclosing `at`."""
    for a in ancestors(at):
        if isinstance(a, (ast.For, ast.AsyncFor)) and any(isinstance(t, ast.Name) and t.id == name for t in ast.walk(a.target)):
            return a
        if isinstance(a, (ast.ListComp, ast.SetComp, ast.GeneratorExp, ast.DictComp)):
            for g in a.generators:
                if any(isinstance(t, ast.Name) and t.id == name for t in ast.walk(g.target)):
                    return g
        if isinstance(a, (ast.FunctionDef, ast.AsyncFunctionDef)):
            break
    return None


def _strip_list(e):
    while isinstance(e, ast.Call) and isinstance(e.func, ast.Name) and e.func.id in ("list", "tuple", "iter") and len(e.args) == 1 and not e.keywords:
        e = e.args[0]
    return e


def _elem_expr(loop, name):
    """indexed form of a loop-bound element variable, or None"""
    it = _strip_list(loop.iter)
    tg = loop.target
    line = getattr(loop, "lineno", None) or getattr(loop.iter, "lineno", 0)
    if isinstance(it, ast.Call) and isinstance(it.func, ast.Name) and it.func.id == "enumerate" and len(it.args) == 1 \
            and isinstance(tg, ast.Tuple) and len(tg.elts) == 2 and isinstance(tg.elts[0], ast.Name):
        idx, el = tg.elts
        if isinstance(el, ast.Name) and el.id == name:
            return ast.Subscript(value=it.args[0], slice=ast.Name(id=idx.id, ctx=ast.Load()), ctx=ast.Load())
        return None
    if isinstance(it, ast.Call) and isinstance(it.func, ast.Name) and it.func.id == "zip" and isinstance(tg, ast.Tuple) and len(tg.elts) == len(it.args):
        for t, src in zip(tg.elts, it.args):
            if isinstance(t, ast.Name) and t.id == name:
                return ast.Subscript(value=src, slice=ast.Name(id=f"zipidx_{line}", ctx=ast.Load()), ctx=ast.Load())
        return None
    if isinstance(it, ast.Call) and isinstance(it.func, ast.Attribute) and it.func.attr == "items" and not it.args \
            and isinstance(tg, ast.Tuple) and len(tg.elts) == 2:
        k, v = tg.elts
        if isinstance(v, ast.Name) and v.id == name:
            return ast.Subscript(value=it.func.value, slice=k, ctx=ast.Load())
    return None


def canon_ast(fnode, e, at=None, depth=0, _seen=None):
    """canonical copy of expression `e` (see above). `at`: the node whose position decides which loops enclose."""
    at = at if at is not None else e
    seen = _seen or set()

    class T(ast.NodeTransformer):
        def visit_Name(self, n):
            if not isinstance(n.ctx, ast.Load) or depth > 6 or n.id in seen or n.id.startswith("zipidx_"):
                return n
            lp = _loop_binding(fnode, n.id, at)
            if lp is not None:
                el = _elem_expr(lp, n.id)
                if el is not None:
                    return canon_ast(fnode, ast.parse(ast.unparse(el), mode="eval").body, lp if isinstance(lp, ast.For) else at, depth + 1, seen | {n.id})
                up = _unpack_of(fnode, n.id)
                if up is not None:
                    return ast.parse("(" + ", ".join(up) + ")", mode="eval").body
                return n
            # `(a, b, c) = n` (unpacked exactly once, names not re-bound): n is the tuple of its parts
            up = _unpack_of(fnode, n.id)
            if up is not None and lp is None:
                lp2 = None
            if up is not None:
                return ast.parse("(" + ", ".join(up) + ")", mode="eval").body
            v = single_def(fnode, n.id)
            if v is not None and _inlinable(fnode, v) and not (isinstance(v, ast.Name) and v.id == n.id):
                st = next((s for s, vv in assignments_to(fnode, n.id) if vv is v), None)
                return canon_ast(fnode, ast.parse(ast.unparse(v), mode="eval").body, st if st is not None else at, depth + 1, seen | {n.id})
            return n

        def visit_Call(self, n):
            # inline calls of nested single-expression helpers:  def is_unary(r): return len(r.body) == 1 and ...
            if isinstance(n.func, ast.Name) and depth <= 4 and not n.keywords and not any(isinstance(a, ast.Starred) for a in n.args):
                helper = _single_expr_helper(fnode, n.func.id)
                if helper is not None and len(helper[0]) == len(n.args):
                    params, body = helper
                    sub = {p: a for p, a in zip(params, n.args)}

                    class S(ast.NodeTransformer):
                        def visit_Name(self, m):
                            if isinstance(m.ctx, ast.Load) and m.id in sub:
                                return ast.parse(ast.unparse(sub[m.id]), mode="eval").body
                            return m

                    inl = S().visit(ast.parse(ast.unparse(body), mode="eval").body)
                    return canon_ast(fnode, inl, at, depth + 1, seen)
            self.generic_visit(n)
            return n

    tree = ast.parse(ast.unparse(e), mode="eval").body
    # positions of the re-parsed tree are meaningless: loop look-ups use `at`
    out = T().visit(tree)
    return out


def _unpack_of(fnode, name):
    """['a', 'b', 'c'] if the function contains exactly one `(a, b, c) = name` (possibly chained) and a, b, c are bound only there"""
    hits = []
    for n in walk_live(fnode):
        if isinstance(n, ast.Assign) and isinstance(n.value, ast.Name) and n.value.id == name:
            for t in n.targets:
                if isinstance(t, (ast.Tuple, ast.List)) and all(isinstance(e, ast.Name) for e in t.elts):
                    hits.append([e.id for e in t.elts])
    if len(hits) != 1:
        return None
    parts = hits[0]
    for p in parts:
        if len(assignments_to(fnode, p)) != 1 or p == "_":
            return None
    return parts


def _single_expr_helper(fnode, name):
    """(params, return expression) of a nested helper `def name(p...): return <expr>` / `name = lambda p...: <expr>`"""
    for n in ast.walk(fnode):
        if isinstance(n, ast.FunctionDef) and n.name == name and n is not fnode:
            body = [s for s in n.body if not (isinstance(s, ast.Expr) and isinstance(s.value, ast.Constant))]
            if len(body) == 1 and isinstance(body[0], ast.Return) and body[0].value is not None and not n.args.vararg and not n.args.kwarg \
                    and not n.args.defaults and _pure(body[0].value):
                return [a.arg for a in n.args.args], body[0].value
            # `if c: return A` (else) `return B`  ==  `return A if c else B`
            if len(body) in (1, 2) and isinstance(body[0], ast.If) and len(body[0].body) == 1 and isinstance(body[0].body[0], ast.Return) \
                    and body[0].body[0].value is not None and not n.args.vararg and not n.args.kwarg and not n.args.defaults:
                other = body[1] if len(body) == 2 and not body[0].orelse else (body[0].orelse[0] if len(body) == 1 and len(body[0].orelse) == 1 else None)
                if isinstance(other, ast.Return) and other.value is not None:
                    e = ast.IfExp(test=body[0].test, body=body[0].body[0].value, orelse=other.value)
                    if _pure(e):
                        return [a.arg for a in n.args.args], e
        if isinstance(n, ast.Assign) and isinstance(n.value, ast.Lambda) and any(isinstance(t, ast.Name) and t.id == name for t in n.targets):
            lam = n.value
            if not lam.args.defaults and not lam.args.vararg and _pure(lam.body):
                return [a.arg for a in lam.args.args], lam.body
    return None


def cnorm(fnode, e, at=None):
    """canonical text of an expression"""
    return norm(canon_ast(fnode, e, at))


def cfact(fnode, ft):
    """canonical text of a fact with the polarity folded into comparison operators"""
    t = canon_ast(fnode, ft.test, ft.origin if not isinstance(ft.origin, (ast.If, ast.While, ast.Assert)) else ft.test)
    pol = ft.pol
    while isinstance(t, ast.UnaryOp) and isinstance(t.op, ast.Not):
        t, pol = t.operand, not pol
    if isinstance(t, ast.Compare) and len(t.ops) == 1:
        op = type(t.ops[0])
        if not pol and op in _NEG:
            op, pol = _NEG[op], True
        l, r = norm(t.left), norm(t.comparators[0])
        if op in (ast.Eq, ast.NotEq) and r < l:
            l, r = r, l
        sym = {ast.Eq: "==", ast.NotEq: "!=", ast.Lt: "<", ast.LtE: "<=", ast.Gt: ">", ast.GtE: ">=", ast.In: "in", ast.NotIn: "not in",
               ast.Is: "is", ast.IsNot: "is not"}[op]
        if op is ast.Gt:
            l, r, sym = r, l, "<"
        if op is ast.GtE:
            l, r, sym = r, l, "<="
        return ("" if pol else "not ") + f"{l} {sym} {r}"
    return ("" if pol else "not ") + norm(t)


def cfacts(fnode, node):
    """canonical, expanded facts that hold at node: set of strings"""
    out = set()
    for ft in guard_facts(node):
        t = canon_ast(fnode, ft.test, ft.origin if isinstance(ft.origin, ast.stmt) else node)
        for sub in expand_facts([Fact(t, ft.pol, ft.origin, ft.kind)]):
            out.add(cfact_text(sub))
    return out


def cfact_text(ft):
    t, pol = ft.test, ft.pol
    while isinstance(t, ast.UnaryOp) and isinstance(t.op, ast.Not):
        t, pol = t.operand, not pol
    if isinstance(t, ast.Compare) and len(t.ops) == 1:
        op = type(t.ops[0])
        if not pol and op in _NEG:
            op, pol = _NEG[op], True
        l, r = norm(t.left), norm(t.comparators[0])
        if op in (ast.Eq, ast.NotEq) and r < l:
            l, r = r, l
        if op is ast.Gt:
            l, r, op = r, l, ast.Lt
        if op is ast.GtE:
            l, r, op = r, l, ast.LtE
        sym = {ast.Eq: "==", ast.NotEq: "!=", ast.Lt: "<", ast.LtE: "<=", ast.In: "in", ast.NotIn: "not in", ast.Is: "is", ast.IsNot: "is not"}[op]
        return ("" if pol else "not ") + f"{l} {sym} {r}"
    return ("" if pol else "not ") + norm(t)


def cfactors(fnode, e, at=None):
    """factor multiset of the canonical expression"""
    return factors(canon_ast(fnode, e, at))


def citer(fnode, loop):
    """canonical text of what a loop iterates (list()/tuple() wrappers stripped, also through a single-definition name)"""
    it = _strip_list(loop.iter)
    if isinstance(it, ast.Name):
        v = single_def(fnode, it.id)
        if v is not None and _strip_list(v) is not v:
            it = _strip_list(v)
    return norm(canon_ast(fnode, it, loop))


def nested_funcs(P, f):
    return [g for g in P.funcs.values() if g.outer is f]


def cguard_facts(fnode, node):
    """guard facts whose tests are canonical expressions (temporaries inlined, loop idioms normalised)"""
    out = []
    for ft in guard_facts(node):
        origin = ft.origin if isinstance(ft.origin, ast.stmt) else node
        t = canon_ast(fnode, ft.test, origin)
        out.extend(expand_facts([Fact(t, ft.pol, ft.origin, ft.kind)]))
    return out


def ctext(fnode, text, at):
    """canonical form of an expected expression given as text (so that both sides of a comparison are canonical)"""
    return norm(canon_ast(fnode, ast.parse(text, mode="eval").body, at))
