"""Obligations, rule results, known findings, evidence files, exit codes."""

from __future__ import annotations

import json
import os
import time

from .model import norm, first_line

VERIF = os.path.dirname(os.path.dirname(os.path.abspath(__file__)))
EVIDENCE_DIR = os.path.join(VERIF, "evidence")
REPLAY_DIR = os.path.join(EVIDENCE_DIR, "replay")
KNOWN = os.path.join(VERIF, "known_findings.json")


class Ob:
    """One obligation: a rule instance at a site."""

    def __init__(self, rule, func, node, ok, msg="", slots=None, construct=None, witness=None, nontrivial=True):
        self.rule = rule
        self.file = func.module.rel if hasattr(func, "module") else str(func)
        self.function = func.qual.split("::", 1)[1] if hasattr(func, "qual") else "<module>"
        self.line = getattr(node, "lineno", 0) if node is not None else 0
        self.construct = construct if construct is not None else (first_line(node) if node is not None else "")
        self.undecided = ok is None
        self.ok = bool(ok) if ok is not None else False
        self.msg = msg
        self.slots = slots or {}
        self.witness = witness
        self.nontrivial = nontrivial

    def key(self):
        return (self.rule, self.file, self.function, self.construct)

    def to_json(self):
        d = {
            "rule": self.rule,
            "site": f"{self.file}:{self.line}",
            "function": self.function,
            "construct": self.construct,
            "verdict": "ok" if self.ok else ("UNDECIDED" if self.undecided else "VIOLATED"),
        }
        if self.slots:
            d["slots"] = self.slots
        if self.msg:
            d["why"] = self.msg
        if self.witness and not self.ok:
            d["witness"] = self.witness
        return d


class ModSite:
    """Pseudo-function for module-level sites."""

    def __init__(self, module):
        self.module = module
        self.qual = f"{module.rel}::<module>"


class RuleResult:
    def __init__(self, rule, text, clause=""):
        self.rule = rule
        self.text = text  # the rule applied, one paragraph
        self.clause = clause
        self.obs = []
        self.info = []
        self.analysed = []  # function quals looked at
        self.min_instances = 0

    def add(self, *a, **k):
        ob = Ob(self.rule, *a, **k)
        self.obs.append(ob)
        return ob

    def undecided(self, func, node, why, **k):
        """the rule located (or failed to locate) its anchor but cannot tell whether the clause holds: not a violation"""
        return self.add(func, node, None, why, **k)

    def note(self, s):
        self.info.append(s)

    def looked_at(self, *funcs):
        for f in funcs:
            q = f.qual if hasattr(f, "qual") else str(f)
            if q not in self.analysed:
                self.analysed.append(q)


def load_known():
    if not os.path.exists(KNOWN):
        return {"open": [], "fixed": []}
    with open(KNOWN, encoding="utf-8") as f:
        return json.load(f)


def match_known(known, prop, ob):
    for e in known.get("open", []):
        props = e.get("properties") or [e.get("property")]
        if prop in props and e["rule"] == ob.rule and e["file"] == ob.file and e["function"] == ob.function \
                and e["construct"] == ob.construct:
            return e
    return None


def write_evidence(prop, tier, seed, explanation, results, stats, t0, violations, known_hits, extra=None,
                   assumptions=None):
    os.makedirs(EVIDENCE_DIR, exist_ok=True)
    all_obs = [o for r in results for o in r.obs]
    distinct = {o.key() for o in all_obs if o.nontrivial}
    samples = []
    for r in results:
        for o in r.obs[:3]:
            samples.append(o.to_json())
    for o in all_obs:
        if not o.ok and o.to_json() not in samples:
            samples.append(o.to_json())
    cov = {
        "explanation": explanation,
        "obligations": len(all_obs),
        "discharged": sum(1 for o in all_obs if o.ok),
        "undecided": sum(1 for o in all_obs if o.undecided),
        "evaluations": max(1, len(all_obs)),
        "distinct_nontrivial": len(distinct),
        "rule": "; ".join(f"{r.rule}: {r.text}" for r in results)
        + " || an obligation is one rule instance at one site (file, function, construct); distinct = distinct "
          "(rule, file, function, normalised construct) keys whose rule had a real condition to check there",
        "samples": samples[:60],
        "rules": [
            {
                "rule": r.rule,
                "clause": r.clause,
                "instances": len(r.obs),
                "min_instances_required": r.min_instances,
                "violated": sum(1 for o in r.obs if not o.ok and not o.undecided),
                "undecided": sum(1 for o in r.obs if o.undecided),
                "functions_analysed": r.analysed,
                "info": r.info,
            }
            for r in results
        ],
        "units_analysed": stats.get("modules"),
        "classes_in_model": stats.get("classes"),
        "functions_in_model": stats.get("functions"),
        "tree_digest": stats.get("digest"),
        "exhaustive": False,
        "known_findings": known_hits,
        "checker_cmd": f"/venv/bin/python -m sa.run {prop} --tier {tier}",
    }
    if extra:
        cov.update(extra)
    ev = {
        "property_id": prop,
        "tier": tier,
        "seed": seed,
        "level": "other",
        "coverage": cov,
        "assumptions": assumptions or [],
        "wall_s": round(time.time() - t0, 3),
        "violations": violations,
    }
    path = os.path.join(EVIDENCE_DIR, f"{prop}.json")
    with open(path, "w", encoding="utf-8") as f:
        json.dump(ev, f, indent=1, ensure_ascii=False)
    return path


def write_replay(prop, n, ob):
    os.makedirs(REPLAY_DIR, exist_ok=True)
    path = os.path.join(REPLAY_DIR, f"{prop}-{n}.json")
    with open(path, "w", encoding="utf-8") as f:
        json.dump({"property": prop, **ob.to_json(), "key": list(ob.key())}, f, indent=1, ensure_ascii=False)
    return path


def run_rules(P, rules):
    """run rule callables; an AnalysisError / internal error of one rule becomes an UNDECIDED obligation of that rule and
    does not stop the others (a violation found by another rule is still reported)"""
    import traceback
    from .model import AnalysisError

    results = []
    for rule in rules:
        fn, kw = (rule, {}) if not isinstance(rule, tuple) else rule
        # rules are functions of the program only: one Program object shares their results between properties (--all, reports)
        cache = P.__dict__.setdefault("_rule_cache", {})
        ck = (fn.__module__, fn.__name__, repr(sorted(kw.items())))
        if ck in cache:
            results.extend(cache[ck])
            continue
        rs = _run_one(P, fn, kw)
        if any(not o.ok for rr in rs for o in rr.obs):
            # Other views of the same program (sa/inline.py: single-assignment temporaries replaced by their definitions, extracted
            # helpers folded back into their callers).  The re-writings preserve behaviour, so if the rule finds every obligation
            # discharged on one of them - and did not lose obligations on the way - the complaint on the text as written was about
            # its wording, not its behaviour.  A view can only discharge: complaints that appear on a view are never reported.
            n_obs = sum(len(rr.obs) for rr in rs)
            n_bad = sum(1 for rr in rs for o in rr.obs if not o.ok)
            for label, P2 in (P.inlined_views() if hasattr(P, "inlined_views") else ()):
                rs2 = _run_one(P2, fn, kw)
                if all(o.ok for rr in rs2 for o in rr.obs) and sum(len(rr.obs) for rr in rs2) >= n_obs - n_bad:
                    for rr in rs2:
                        rr.note(f"decided on the view [{label}] of the program (on the text as written the rule reported "
                                f"{n_bad} obligation(s) as violated/undecided): "
                                + "; ".join(f"{m.rel}: {l}" for m in P2.modules.values() for l in m.transform_log)[:1200])
                    rs = rs2
                    break
        cache[ck] = rs
        results.extend(rs)
    return results


def _run_one(P, fn, kw):
    import traceback
    from .model import AnalysisError

    if True:
        try:
            r = fn(P, **kw)
            rs = r if isinstance(r, list) else [r]
        except AnalysisError as e:
            rr = RuleResult(fn.__name__.replace("rule_", "").upper().replace("_", "-"), "(rule could not run)", "")
            rr.undecided(_Anchor(P), None, str(e), construct=f"{fn.__name__}: {str(e)[:120]}")
            rs = [rr]
        except Exception as e:  # internal error: cannot decide, never a violation
            rr = RuleResult(fn.__name__.replace("rule_", "").upper().replace("_", "-"), "(rule crashed)", "")
            rr.undecided(_Anchor(P), None, f"internal error {type(e).__name__}: {e}", construct=f"{fn.__name__}: internal error {type(e).__name__}")
            rr.note(traceback.format_exc()[-600:])
            rs = [rr]
        for rr in rs:
            if len(rr.obs) < rr.min_instances:
                rr.undecided(_Anchor(P), None, f"rule {rr.rule} matched {len(rr.obs)} instance(s), fewer than the {rr.min_instances} confirmed by hand "
                             f"(it would pass vacuously)", construct=f"{rr.rule}: instance count")
    return rs


class _Anchor:
    """pseudo-site for rule-level outcomes"""

    def __init__(self, P):
        self.qual = "<package>::<rule>"

        class M:
            rel = "<package>"
        self.module = M()
