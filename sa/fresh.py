"""Freshness / ownership analysis and mutation effects.

Abstract value of an expression:
  DEEP     object allocated in this activation; what it owns was allocated here too
  SHALLOW  container allocated here whose elements are shared (`chart + [x]`, `list(self)`, `set(self.V)`)
  DERIVED  anything else (parameters, self, attributes/elements of those, cached values, unknown calls)
with a provenance root ('param:<name>', 'self', 'cache', 'global', 'unknown') used to attribute effects.

The walk is flow-sensitive over statements (branches merge by meet, loop bodies are run twice); nested
functions are analysed with the flow-insensitive meet of the enclosing function's bindings.
"""

from __future__ import annotations

import ast

from .model import AnalysisError, norm, parent, const_truth
from . import walk as W

DEEP, SHALLOW, DERIVED = 2, 1, 0
KNAME = {DEEP: "fresh", SHALLOW: "fresh-container", DERIVED: "derived"}

CONTAINER_MUTATORS = {
    "append", "extend", "update", "clear", "pop", "popitem", "remove", "discard", "insert", "sort", "reverse",
    "setdefault", "appendleft", "popleft", "extendleft", "add", "intersection_update", "difference_update",
    "symmetric_difference_update", "fill", "resize", "put",
}
# third-party / builtin callables that allocate (frozen table, A1)
FRESH_CALLS_DEEP = {
    "set", "list", "dict", "defaultdict", "Counter", "deque", "OrderedDict", "Integerizer", "LocatorMaxHeap",
    "Digraph", "frozenset", "tuple", "bytearray", "frozendict",
}
FRESH_NUMPY = {"full", "zeros", "ones", "empty", "array", "hstack", "vstack", "zeros_like", "eye", "copy", "pinv", "inv"}
COPY_METHODS = {"copy", "union", "intersection", "difference", "items", "keys", "values", "split", "strip",
                "encode", "replace", "filter", "project", "normalize_copy"}
IMMUTABLE_TYPES = (ast.Constant, ast.JoinedStr, ast.Compare, ast.BoolOp)


class Val:
    __slots__ = ("kind", "typ", "vfresh", "root", "why")

    def __init__(self, kind, typ=None, vfresh=True, root=None, why=""):
        self.kind = kind
        self.typ = typ
        self.vfresh = vfresh
        self.root = root
        self.why = why

    def __repr__(self):
        return f"Val({KNAME[self.kind]}, typ={self.typ}, root={self.root})"


def meet(a, b):
    if a is None:
        return b
    if b is None:
        return a
    if a.kind <= b.kind:
        lo, hi = a, b
    else:
        lo, hi = b, a
    return Val(lo.kind, lo.typ if lo.typ == hi.typ else (lo.typ or hi.typ), a.vfresh and b.vfresh,
               lo.root if lo.kind == DERIVED else (lo.root or hi.root), lo.why)


class Effect:
    def __init__(self, func, node, kind, target, val, via=None, field=None):
        self.func = func
        self.node = node
        self.kind = kind  # store | aug | del | call | vivify | augname
        self.target = target  # text of the mutated object
        self.val = val  # Val of the mutated object
        self.via = via  # callee qual for propagated effects
        self.field = field  # last attribute on the path to the mutated object (e.g. 'rules', 'V', '_chart')

    def __repr__(self):
        return f"<Effect {self.kind} {self.target} {self.val} in {self.func.qual}:{self.node.lineno}>"


def _path_fields(expr):
    """attribute names along an access path, outermost last"""
    out = []
    e = expr
    while True:
        if isinstance(e, ast.Attribute):
            out.append(e.attr)
            e = e.value
        elif isinstance(e, ast.Subscript):
            out.append("[]")
            e = e.value
        elif isinstance(e, ast.Call):
            out.append("()")
            e = e.func
        else:
            break
    out.reverse()
    return e, out


class Analysis:
    def __init__(self, P):
        self.P = P
        self.effects = {}  # qual -> [Effect]
        self.returns_fresh = {}  # qual -> Val|None  (meet over returns)
        self.mutates = {}  # qual -> set(param names) mutated (non-memo)
        self.vivify = []  # Effects of kind vivify
        self.ddfields = self._defaultdict_fields()
        self.cached_props = {f.name for f in P.funcs.values() if "cached_property" in f.decorators}
        self.by_name = {}
        for f in P.funcs.values():
            if f.cls is not None and f.outer is None:
                self.by_name.setdefault(f.name, []).append(f)
        self.modfuncs = {}
        for f in P.funcs.values():
            if f.cls is None and f.outer is None:
                self.modfuncs.setdefault(f.name, []).append(f)
        self.spawn_vfresh = self._spawn_summary()
        self._fixpoint()

    # -------------------------------------------------------------- tables from the source
    def _defaultdict_fields(self):
        """attribute names that hold a defaultdict somewhere (self.x = defaultdict(...) / local alias stored)."""
        fields = {}
        for f in self.P.funcs.values():
            local_dd = set()
            for n in W.own_nodes(f.node):
                if isinstance(n, ast.Assign) and isinstance(n.value, ast.Call) and W.call_name(n.value) == "defaultdict":
                    for t in n.targets:
                        if isinstance(t, ast.Name):
                            local_dd.add(t.id)
                        elif isinstance(t, ast.Attribute):
                            fields.setdefault(t.attr, []).append(f.qual)
            for n in W.own_nodes(f.node):
                if isinstance(n, ast.Assign) and isinstance(n.value, ast.Name) and n.value.id in local_dd:
                    for t in n.targets:
                        if isinstance(t, ast.Attribute):
                            fields.setdefault(t.attr, []).append(f.qual)
            # cached_property returning a local defaultdict
            if "cached_property" in f.decorators or "property" in f.decorators:
                for n in W.own_nodes(f.node):
                    if isinstance(n, ast.Return) and isinstance(n.value, ast.Name) and n.value.id in local_dd:
                        fields.setdefault(f.name, []).append(f.qual)
        return fields

    def _spawn_summary(self):
        """CFG.spawn: is the vocabulary of the result fresh when V= is not passed?  Re-derived from the body."""
        f = self.P.funcs.get("cfg.py::CFG.spawn")
        if f is None:
            raise AnalysisError("cfg.py::CFG.spawn not found")
        rets = [n for n in W.own_nodes(f.node) if isinstance(n, ast.Return) and n.value is not None]
        if len(rets) != 1 or not isinstance(rets[0].value, ast.Call):
            raise AnalysisError("cfg.py::CFG.spawn: expected a single `return <constructor call>`")
        call = rets[0].value
        varg = None
        for kw in call.keywords:
            if kw.arg == "V":
                varg = kw.value
        if varg is None and len(call.args) >= 3:
            varg = call.args[2]
        if varg is None:
            raise AnalysisError("cfg.py::CFG.spawn: vocabulary argument of the constructor call not found")
        self.spawn_v_expr = varg
        default = varg
        if isinstance(varg, ast.IfExp):
            c = W.cmp_parts(varg.test)
            if c and isinstance(c[0], ast.Name) and c[0].id == "V" and isinstance(c[2], ast.Constant) and c[2].value is None:
                default = varg.body if isinstance(c[1], ast.Is) else varg.orelse
        # the same default written as a statement:  if V is None: V = set(self.V)   ...   cls(.., V=V)
        if isinstance(varg, ast.Name):
            for st in f.node.body:
                if isinstance(st, ast.If) and not st.orelse and len(st.body) == 1 and isinstance(st.body[0], ast.Assign):
                    c = W.cmp_parts(st.test)
                    a = st.body[0]
                    if c and isinstance(c[0], ast.Name) and c[0].id == varg.id and isinstance(c[1], ast.Is) and isinstance(c[2], ast.Constant) \
                            and c[2].value is None and len(a.targets) == 1 and W.is_name(a.targets[0], varg.id):
                        default = a.value
        env = {"self": Val(DERIVED, typ=f.cls, root="self")}
        for p in f.node.args.kwonlyargs + f.node.args.args:
            env.setdefault(p.arg, Val(DERIVED, root=f"param:{p.arg}"))
        w = _Walker(self, f, env, record=False)
        v = w.eval(default)
        return v.kind != DERIVED

    # -------------------------------------------------------------- fixpoint over summaries
    def _fixpoint(self):
        funcs = list(self.P.funcs.values())
        for f in funcs:
            self.returns_fresh[f.qual] = None
            self.mutates[f.qual] = set()
        unstable, flips = {}, {}
        for rnd in range(14):
            changed = False
            self.effects = {}
            self.vivify = []
            self.closure_envs = {}
            # outer functions first so that closure environments exist
            for f in sorted(funcs, key=lambda f: f.qual.count(".")):
                w = _Walker(self, f, self._initial_env(f))
                w.run()
                self.effects[f.qual] = w.effects
                self.vivify.extend(w.vivify)
                self.closure_envs[f.qual] = w.flow_insensitive
                rf = w.return_val
                if "cached_property" in f.decorators:
                    rf = Val(DERIVED, root="cache") if rf is not None else None
                old = self.returns_fresh[f.qual]
                if f.qual in unstable:
                    rf = unstable[f.qual]  # pinned to the conservative answer (see below)
                if (old is None) != (rf is None) or (old is not None and (old.kind != rf.kind or old.vfresh != rf.vfresh)):
                    self.returns_fresh[f.qual] = rf
                    changed = True
                    flips[f.qual] = flips.get(f.qual, 0) + 1
                    if flips[f.qual] >= 4:
                        # a summary that keeps flipping (a recursive function whose result depends on its own summary): pin it to
                        # "returns something derived from its receiver", the answer that can only add obligations
                        unstable[f.qual] = Val(DERIVED, root="self" if f.cls is not None else "param:?")
                        self.returns_fresh[f.qual] = unstable[f.qual]
                mp = set()
                for e in w.effects:
                    if e.val.kind == DERIVED and e.val.root and e.val.root.startswith("param:"):
                        if e.field in MEMO_FIELDS:
                            continue
                        mp.add(e.val.root[6:])
                    elif e.val.kind == DERIVED and e.val.root == "self" and e.field not in MEMO_FIELDS:
                        mp.add("self")
                if not (mp <= self.mutates[f.qual]) or (mp != self.mutates[f.qual] and rnd < 3):
                    # after the first rounds the mutated-parameter sets only grow (monotone, hence terminating)
                    self.mutates[f.qual] = (mp | self.mutates[f.qual]) if rnd >= 3 else mp
                    changed = True
            if not changed:
                break
        else:
            raise AnalysisError("freshness summaries did not converge")

    def _initial_env(self, f):
        env = {}
        if f.outer is not None:
            for k, v in self.closure_envs.get(f.outer.qual, {}).items():
                env[k] = v
        a = f.node.args
        allp = a.posonlyargs + a.args + a.kwonlyargs + ([a.vararg] if a.vararg else []) + ([a.kwarg] if a.kwarg else [])
        for i, p in enumerate(allp):
            if p.arg == "self" and i == 0 and f.cls is not None and f.outer is None:
                env[p.arg] = Val(DERIVED, typ=f.cls, root="self")
            elif p.arg == "cls" and i == 0 and "classmethod" in f.decorators:
                env[p.arg] = Val(DERIVED, typ="type", root="global")
            else:
                env[p.arg] = Val(DERIVED, root=f"param:{p.arg}")
        return env

    # -------------------------------------------------------------- call resolution
    def resolve_method(self, recv_typ, name):
        """candidate Funcs for `<recv>.name(...)`."""
        if recv_typ is not None and not isinstance(recv_typ, str):
            r = recv_typ.lookup(name)
            if r and r[0] == "method":
                return [r[1]]
            return []
        if isinstance(recv_typ, str):
            if recv_typ in BUILTIN_TYPES:
                return []
            cands = [c for c in self.P.classes.values() if c.name == recv_typ]
            out = []
            for c in cands:
                r = c.lookup(name)
                if r and r[0] == "method":
                    out.append(r[1])
            if out or cands:
                return out
        return list(self.by_name.get(name, []))

    def is_cached_prop(self, recv_typ, name):
        if name not in self.cached_props:
            return False
        if recv_typ is not None and not isinstance(recv_typ, str):
            r = recv_typ.lookup(name)
            return bool(r and r[0] == "method" and "cached_property" in r[1].decorators)
        if isinstance(recv_typ, str) and recv_typ in BUILTIN_TYPES:
            return False
        return True


MEMO_FIELDS = {"_chart", "_trim_cache"}
BUILTIN_TYPES = {"list", "set", "dict", "tuple", "defaultdict", "immutable", "Counter", "deque", "frozenset",
                 "ndarray", "generator", "semiring", "None", "type", "Integerizer", "LocatorMaxHeap", "Digraph",
                 "frozendict", "OrderedDict", "bytearray"}


def tname(t):
    if t is None or isinstance(t, str):
        return t
    return t.name


class _Walker:
    def __init__(self, A, f, env, record=True):
        self.A = A
        self.P = A.P
        self.f = f
        self.env = dict(env)
        self.record = record
        self.effects = []
        self.vivify = []
        self.return_val = None
        self.has_return = False
        self.flow_insensitive = {}
        self.escaped = set()
        self.aliases = {}  # local name -> ('method', recv_typ, name) for `_update = self._update`
        self._seen = {}
        self._vseen = set()

    # ---------------------------------------------------------- driver
    def run(self):
        node = self.f.node
        self.exec_block(node.body)
        if self.f.node and any(isinstance(n, (ast.Yield, ast.YieldFrom)) for n in W.own_nodes(node)):
            self.return_val = Val(DERIVED, root="unknown", why="generator")

    def bind(self, name, val):
        self.env[name] = val
        old = self.flow_insensitive.get(name)
        self.flow_insensitive[name] = meet(old, val) if old is not None else val

    # ---------------------------------------------------------- statements
    def exec_block(self, stmts):
        for st in stmts:
            self.exec_stmt(st)

    def exec_stmt(self, st):
        if isinstance(st, (ast.FunctionDef, ast.AsyncFunctionDef, ast.ClassDef)):
            return
        if isinstance(st, ast.Assign):
            self.scan_expr(st.value)
            v = self.eval(st.value)
            for t in st.targets:
                self.assign(t, v, st.value, st)
        elif isinstance(st, ast.AnnAssign):
            if st.value is not None:
                self.scan_expr(st.value)
                self.assign(st.target, self.eval(st.value), st.value, st)
        elif isinstance(st, ast.AugAssign):
            self.scan_expr(st.value)
            t = st.target
            if isinstance(t, ast.Name):
                cur = self.lookup(t.id)
                rv = self.eval(st.value)
                containerish = isinstance(st.value, (ast.List, ast.Set, ast.Dict, ast.ListComp, ast.SetComp, ast.DictComp)) \
                    or (isinstance(st.value, ast.Call) and W.call_name(st.value) in ("list", "set", "dict")) \
                    or (cur is not None and cur.typ in ("list", "set", "dict", "defaultdict"))
                arrayish = self.f.module.rel == "wfsa/field_wfsa.py" and cur is not None and cur.typ not in ("immutable",) \
                    and cur.kind == DERIVED and cur.root in ("self", "cache", "unknown") \
                    and isinstance(st.op, (ast.Div, ast.Mult, ast.Add, ast.Sub)) and self._maybe_array(t.id)
                if (containerish or arrayish) and cur is not None:
                    self.effect(st, "augname", t, cur)
                # the name keeps its binding (in-place for containers)
            else:
                self.store_effect(t, st, "aug")
        elif isinstance(st, ast.Delete):
            for t in st.targets:
                if not isinstance(t, ast.Name):
                    self.store_effect(t, st, "del")
        elif isinstance(st, ast.Expr):
            self.scan_expr(st.value)
        elif isinstance(st, ast.Return):
            self.has_return = True
            if st.value is not None:
                self.scan_expr(st.value)
                v = self.eval(st.value)
                if isinstance(st.value, ast.Name) and st.value.id in self.escaped:
                    v = Val(DERIVED, typ=v.typ, root="cache", why="stored into a shared object before being returned")
                self.return_val = meet(self.return_val, v) if self.return_val is not None else v
            else:
                v = Val(DEEP, typ="None")
                self.return_val = meet(self.return_val, v) if self.return_val is not None else v
        elif isinstance(st, ast.If):
            self.scan_expr(st.test)
            tv = const_truth(st.test)
            if tv is True:
                self.exec_block(st.body)
            elif tv is False:
                self.exec_block(st.orelse)
            else:
                env0 = dict(self.env)
                self.exec_block(st.body)
                env1 = self.env
                self.env = dict(env0)
                self.exec_block(st.orelse)
                env2 = self.env
                b1, b2 = W.block_exits(st.body), W.block_exits(st.orelse)
                if b1 and not b2:
                    self.env = env2
                elif b2 and not b1:
                    self.env = env1
                else:
                    self.env = self.merge(env1, env2)
        elif isinstance(st, (ast.For, ast.AsyncFor)):
            self.scan_expr(st.iter)
            it = self.eval(st.iter)
            elem = Val(DEEP, root=it.root) if it.kind == DEEP and it.typ in ("list", "set", "dict", "defaultdict", "tuple") \
                else Val(DERIVED, root=it.root or "unknown")
            env0 = dict(self.env)
            for _ in range(2):
                self.assign(st.target, elem, None, st)
                self.exec_block(st.body)
                self.env = self.merge(env0, self.env)
                env0 = dict(self.env)
            self.exec_block(st.orelse)
        elif isinstance(st, ast.While):
            env0 = dict(self.env)
            for _ in range(2):
                self.scan_expr(st.test)
                self.exec_block(st.body)
                self.env = self.merge(env0, self.env)
                env0 = dict(self.env)
            self.exec_block(st.orelse)
        elif isinstance(st, (ast.With, ast.AsyncWith)):
            for it in st.items:
                self.scan_expr(it.context_expr)
                if it.optional_vars is not None:
                    self.assign(it.optional_vars, Val(DERIVED, root="unknown"), None, st)
            self.exec_block(st.body)
        elif isinstance(st, ast.Try):
            self.exec_block(st.body)
            for h in st.handlers:
                if h.name:
                    self.bind(h.name, Val(DERIVED, root="unknown"))
                self.exec_block(h.body)
            self.exec_block(st.orelse)
            self.exec_block(st.finalbody)
        elif isinstance(st, ast.Assert):
            self.scan_expr(st.test)
        elif isinstance(st, ast.Raise):
            if st.exc is not None:
                self.scan_expr(st.exc)
        elif isinstance(st, (ast.Import, ast.ImportFrom, ast.Pass, ast.Break, ast.Continue, ast.Global, ast.Nonlocal)):
            pass
        elif isinstance(st, ast.Match):
            self.scan_expr(st.subject)
            envs = []
            env0 = dict(self.env)
            for c in st.cases:
                self.env = dict(env0)
                self.exec_block(c.body)
                envs.append(self.env)
            self.env = env0
            for e in envs:
                self.env = self.merge(self.env, e)
        else:
            for n in ast.iter_child_nodes(st):
                if isinstance(n, ast.expr):
                    self.scan_expr(n)

    def _maybe_array(self, name):
        """in the dense linear-algebra module: a name unpacked from a work-list item / bound to self.start|stop|arcs[...] holds an ndarray"""
        for st, val in W.assignments_to(self.f.node, name):
            if val is None:
                return True  # tuple unpack from a container element
            txt = norm(val)
            if any(k in txt for k in ("self.start", "self.stop", ".stop", ".start", "self.arcs", "@")):
                return True
        return False

    def merge(self, a, b):
        out = {}
        for k in set(a) | set(b):
            if k in a and k in b:
                out[k] = meet(a[k], b[k])
            else:
                out[k] = a.get(k) or b.get(k)
        return out

    def lookup(self, name):
        return self.env.get(name)

    def assign(self, target, val, value_expr, st):
        if isinstance(target, ast.Name):
            self.bind(target.id, val)
            # method alias  `_update = self._update`
            if value_expr is not None and isinstance(value_expr, ast.Attribute):
                rv = self.eval(value_expr.value)
                self.aliases[target.id] = (rv.typ, value_expr.attr, value_expr.value)
            else:
                self.aliases.pop(target.id, None)
        elif isinstance(target, (ast.Tuple, ast.List)):
            if value_expr is not None and isinstance(value_expr, (ast.Tuple, ast.List)) and len(value_expr.elts) == len(target.elts):
                vals = [self.eval(e) for e in value_expr.elts]
                for t, v, e in zip(target.elts, vals, value_expr.elts):
                    self.assign(t, v, e, st)
            else:
                sub = Val(DERIVED, root=val.root or "unknown") if val.kind != DEEP else Val(DERIVED, root=val.root or "unknown")
                for t in target.elts:
                    if isinstance(t, ast.Starred):
                        t = t.value
                    self.assign(t, sub, None, st)
        elif isinstance(target, ast.Starred):
            self.assign(target.value, val, None, st)
        else:
            # attribute / subscript store
            self.store_effect(target, st, "store")
            # escaping: a local stored into a shared object is no longer private
            if value_expr is not None and isinstance(value_expr, ast.Name):
                base = target.value if isinstance(target, (ast.Attribute, ast.Subscript)) else None
                if base is not None and self.eval(base).kind == DERIVED:
                    self.escaped.add(value_expr.id)

    # ---------------------------------------------------------- effects
    def effect(self, node, kind, target_expr, val, via=None, field=None):
        if not self.record:
            return
        if field is None:
            _, flds = _path_fields(target_expr)
            field = next((x for x in reversed(flds) if x not in ("[]", "()")), None)
        key = (id(node), kind, norm(target_expr), via)
        if key in self._seen:
            # second pass over a loop body: keep the weaker (more derived) value
            old = self._seen[key]
            if val.kind < old.val.kind:
                old.val = val
            return
        e = Effect(self.f, node, kind, norm(target_expr), val, via=via, field=field)
        self._seen[key] = e
        self.effects.append(e)

    def store_effect(self, target, st, kind):
        """`X.a = v` mutates X; `X[k] = v` mutates X (the container)."""
        if isinstance(target, (ast.Attribute, ast.Subscript)):
            obj = target.value
            v = self.eval(obj)
            fld = target.attr if isinstance(target, ast.Attribute) else None
            self.scan_expr(obj)
            if isinstance(target, ast.Subscript):
                self.scan_expr(target.slice)
            self.effect(st, kind, obj, v, field=fld)
        elif isinstance(target, (ast.Tuple, ast.List)):
            for t in target.elts:
                self.store_effect(t, st, kind)

    # ---------------------------------------------------------- expression scan (calls, vivifying loads)
    def scan_expr(self, e):
        for n in self._walk_expr(e):
            if isinstance(n, ast.Call):
                self.call_effects(n)
            elif isinstance(n, ast.Subscript) and isinstance(n.ctx, ast.Load):
                b = n.value
                if isinstance(b, ast.Attribute) and b.attr in self.A.ddfields:
                    v = self.eval(b)
                    if self.record and id(n) not in self._vseen:
                        self._vseen.add(id(n))
                        self.vivify.append(Effect(self.f, n, "vivify", norm(b), v, field=b.attr))
                elif isinstance(b, ast.Name):
                    # alias of a defaultdict field:  col_waiting_for = col.waiting_for
                    d = W.deref(self.f.node, b)
                    if isinstance(d, ast.Attribute) and d.attr in self.A.ddfields:
                        v = self.eval(d)
                        if self.record and id(n) not in self._vseen:
                            self._vseen.add(id(n))
                            self.vivify.append(Effect(self.f, n, "vivify", norm(d), v, field=d.attr))
            elif isinstance(n, ast.NamedExpr):
                self.bind(n.target.id, self.eval(n.value))

    def _walk_expr(self, e):
        stack = [e]
        while stack:
            n = stack.pop()
            if isinstance(n, (ast.FunctionDef, ast.AsyncFunctionDef, ast.ClassDef)):
                continue
            if isinstance(n, (ast.ListComp, ast.SetComp, ast.DictComp, ast.GeneratorExp)):
                for g in n.generators:
                    for t in ast.walk(g.target):
                        if isinstance(t, ast.Name) and t.id not in self.env:
                            self.env[t.id] = Val(DERIVED, root="unknown")
            if isinstance(n, ast.Lambda):
                for p in n.args.args:
                    self.env.setdefault(p.arg, Val(DERIVED, root=f"param:{p.arg}"))
            yield n
            stack.extend(ast.iter_child_nodes(n))

    def call_effects(self, call):
        fn = call.func
        name = W.call_name(call)
        if isinstance(fn, ast.Attribute):
            recv = fn.value
            rv = self.eval(recv)
            # super().__init__(...) etc.: constructor chaining on self
            if isinstance(recv, ast.Call) and W.call_name(recv) == "super":
                return
            cands = self.A.resolve_method(rv.typ, name)
            npos = len(call.args)
            if name == "add":
                # CFG.add(w, head, *body) has >= 2 positional args (or a starred tail); container add has exactly 1
                starred = any(isinstance(a, ast.Starred) for a in call.args)
                if rv.typ in ("set", "Integerizer", "frozenset") or (npos == 1 and not starred and tname(rv.typ) != "CFG"):
                    self.effect(call, "call", recv, rv, via="container.add")
                    return
                cands = [c for c in cands if c.qual == "cfg.py::CFG.add"] or cands
            if cands:
                for c in cands:
                    mp = self.A.mutates.get(c.qual, set())
                    if "self" in mp:
                        fld = None
                        if c.qual == "cfg.py::CFG.add":
                            fld = "rules"
                        self.effect(call, "call", recv, rv, via=c.qual, field=fld)
                    self._param_effects(call, c, mp, bound=True)
                return
            if name in CONTAINER_MUTATORS:
                self.effect(call, "call", recv, rv, via=f"container.{name}")
            return
        if isinstance(fn, ast.Name):
            # local alias of a bound method
            if fn.id in self.aliases and fn.id in self.env:
                typ, mname, recv = self.aliases[fn.id]
                rv = self.eval(recv)
                for c in self.A.resolve_method(typ, mname):
                    mp = self.A.mutates.get(c.qual, set())
                    if "self" in mp:
                        self.effect(call, "call", recv, rv, via=c.qual)
                    self._param_effects(call, c, mp, bound=True)
                return
            # nested function of this or an enclosing function
            g = self.f
            while g is not None:
                q = f"{g.qual}.{fn.id}"
                if q in self.P.funcs:
                    c = self.P.funcs[q]
                    self._param_effects(call, c, self.A.mutates.get(c.qual, set()), bound=False)
                    return
                g = g.outer
            # module-level function (same module or imported)
            r = self.P.resolve_name(self.f.module, fn.id)
            if r and r[0] == "func":
                c = r[1]
                self._param_effects(call, c, self.A.mutates.get(c.qual, set()), bound=False)

    def _param_effects(self, call, callee, mutated, bound):
        if not mutated:
            return
        params = callee.params
        if bound and params and params[0] in ("self", "cls"):
            params = params[1:]
        for i, a in enumerate(call.args):
            if isinstance(a, ast.Starred):
                break
            if i < len(params) and params[i] in mutated:
                v = self.eval(a)
                self.effect(call, "call", a, v, via=callee.qual)
        for kw in call.keywords:
            if kw.arg in mutated:
                v = self.eval(kw.value)
                self.effect(call, "call", kw.value, v, via=callee.qual)

    # ---------------------------------------------------------- evaluation
    def eval(self, e):
        if isinstance(e, ast.Name):
            v = self.env.get(e.id)
            if v is not None:
                return v
            return Val(DERIVED, root="global")
        if isinstance(e, IMMUTABLE_TYPES):
            return Val(DEEP, typ="immutable")
        if isinstance(e, ast.Tuple):
            vals = [self.eval(x) for x in e.elts]
            k = min([v.kind for v in vals], default=DEEP)
            return Val(DEEP if k == DEEP else SHALLOW, typ="tuple")
        if isinstance(e, (ast.List, ast.Set)):
            vals = [self.eval(x.value if isinstance(x, ast.Starred) else x) for x in e.elts]
            k = DEEP if all(v.kind == DEEP for v in vals) and not any(isinstance(x, ast.Starred) for x in e.elts) else SHALLOW
            return Val(k, typ="list" if isinstance(e, ast.List) else "set")
        if isinstance(e, ast.Dict):
            vals = [self.eval(x) for x in e.values if x is not None]
            k = DEEP if all(v.kind == DEEP for v in vals) and all(x is not None for x in e.keys) else SHALLOW
            return Val(k, typ="dict")
        if isinstance(e, (ast.ListComp, ast.SetComp, ast.GeneratorExp, ast.DictComp)):
            saved = dict(self.env)
            for g in e.generators:
                for t in ast.walk(g.target):
                    if isinstance(t, ast.Name):
                        self.env[t.id] = Val(DERIVED, root="unknown")
            elt = e.value if isinstance(e, ast.DictComp) else e.elt
            ev = self.eval(elt)
            self.env = saved
            typ = {ast.ListComp: "list", ast.SetComp: "set", ast.DictComp: "dict", ast.GeneratorExp: "generator"}[type(e)]
            return Val(DEEP if ev.kind == DEEP else SHALLOW, typ=typ)
        if isinstance(e, ast.IfExp):
            return meet(self.eval(e.body), self.eval(e.orelse))
        if isinstance(e, ast.BinOp):
            l, r = self.eval(e.left), self.eval(e.right)
            if l.typ == "immutable" and r.typ == "immutable":
                return Val(DEEP, typ="immutable")
            # non-augmented binary operators of builtin containers / numbers allocate their result
            typ = l.typ if l.typ in ("list", "set", "dict", "tuple") else (r.typ if r.typ in ("list", "set", "tuple") else None)
            return Val(SHALLOW, typ=typ)
        if isinstance(e, ast.UnaryOp):
            return Val(DEEP, typ="immutable")
        if isinstance(e, ast.Attribute):
            return self.eval_attr(e)
        if isinstance(e, ast.Subscript):
            b = self.eval(e.value)
            if isinstance(e.slice, ast.Slice):
                return Val(SHALLOW if b.kind != DEEP else DEEP, typ=b.typ, root=b.root)
            if b.kind == DEEP and b.typ != "immutable":
                return Val(DEEP, root=b.root)
            return Val(DERIVED, root=b.root or "unknown")
        if isinstance(e, ast.Call):
            return self.eval_call(e)
        if isinstance(e, ast.NamedExpr):
            return self.eval(e.value)
        if isinstance(e, ast.Starred):
            return self.eval(e.value)
        if isinstance(e, ast.Lambda):
            return Val(DEEP, typ="immutable")
        if isinstance(e, ast.Await):
            return self.eval(e.value)
        return Val(DERIVED, root="unknown")

    def eval_attr(self, e):
        b = self.eval(e.value)
        if self.A.is_cached_prop(b.typ, e.attr):
            # cached_property: the value persists on the receiver
            return Val(DERIVED, root="cache" if b.root in ("self", "cache", None) else b.root, why=f"cached_property {e.attr}")
        if b.kind == DEEP and b.typ != "immutable":
            if e.attr == "V" and not b.vfresh:
                return Val(DERIVED, root="shared-V", why="vocabulary passed by reference into a fresh grammar")
            if e.attr in ("R", "semiring", "WeightType"):
                return Val(DEEP, typ="immutable")
            return Val(DEEP, root=b.root)
        if e.attr in ("R", "semiring", "WeightType", "zero", "one"):
            return Val(DERIVED, typ="semiring", root="global")
        root = b.root
        if e.attr in MEMO_FIELDS and b.root == "self":
            root = "cache"
        return Val(DERIVED, root=root or "unknown")

    def eval_call(self, call):
        fn = call.func
        name = W.call_name(call)
        # ----- Name(...)
        if isinstance(fn, ast.Name):
            if fn.id in ("cls",) and self.f.cls is not None:
                return self._construct(self.f.cls, call)
            r = self.P.resolve_name(self.f.module, fn.id)
            if r and r[0] == "class":
                return self._construct(r[1], call)
            if fn.id in FRESH_CALLS_DEEP and fn.id not in self.env:
                if fn.id in ("set", "list", "dict", "tuple", "frozenset", "Counter", "frozendict", "deque") and call.args:
                    av = self.eval(call.args[0])
                    k = DEEP if av.kind == DEEP else SHALLOW
                    return Val(k, typ=fn.id if fn.id != "frozendict" else "dict")
                return Val(DEEP, typ=fn.id)
            if fn.id in ("sorted", "reversed", "enumerate", "zip", "map", "filter", "range", "iter", "chain"):
                return Val(SHALLOW, typ="list")
            if fn.id in ("len", "max", "min", "sum", "abs", "float", "int", "str", "bool", "hash", "repr", "isinstance",
                         "any", "all", "round", "id", "type", "ord", "chr"):
                return Val(DEEP, typ="immutable")
            if r and r[0] == "ext" and fn.id[:1].isupper():
                return Val(DEEP, typ=fn.id)
            # nested / module function with a summary
            c = self._resolve_plain(fn.id)
            if c is not None:
                rf = self.A.returns_fresh.get(c.qual)
                if rf is None:
                    return Val(DEEP)
                if rf.kind != DERIVED:
                    return Val(rf.kind, typ=rf.typ, vfresh=rf.vfresh)
            return Val(DERIVED, root="unknown")
        # ----- recv.name(...)
        if isinstance(fn, ast.Attribute):
            recv = fn.value
            # numpy / linalg allocators
            if isinstance(recv, ast.Name) and recv.id in ("np", "numpy", "linalg") and name in FRESH_NUMPY:
                return Val(DEEP, typ="ndarray")
            if isinstance(recv, ast.Attribute) and norm(recv) in ("np.linalg", "numpy.linalg") and name in FRESH_NUMPY:
                return Val(DEEP, typ="ndarray")
            # self.__class__(...)
            if name == "__class__":
                pass
            if isinstance(fn, ast.Attribute) and fn.attr == "__class__":
                pass
            if isinstance(recv, ast.Attribute) and recv.attr == "__class__":
                # self.__class__.lift(...) etc -> classmethod of own class
                pass
            rv = self.eval(recv)
            # semiring chart factory: R.chart() / self.R.chart() / cfg.R.chart()
            if name == "chart" and (rv.typ in ("semiring", "immutable") or norm(recv).endswith((".R", ".semiring", ".WeightType"))
                                    or norm(recv) in ("R", "semiring", "Float", "Boolean", "Real")):
                return Val(DEEP, typ="Chart")
            if name == "spawn":
                typ = rv.typ
                kws = {k.arg for k in call.keywords}
                if typ is None:
                    typ = "CFG" if kws & {"S", "V", "R"} else ("WFSA" if any(k and k.startswith("keep_") for k in kws) else None)
                    if typ == "CFG":
                        typ = self.P.classes.get(("cfg.py", "CFG"), typ)
                vf = self.A.spawn_vfresh
                for k in call.keywords:
                    if k.arg == "V":
                        vf = self.eval(k.value).kind != DERIVED
                # summaries start optimistic (None) and only move down: greatest fixed point
                cands = self.A.resolve_method(typ, "spawn")
                if any(self.A.returns_fresh.get(c.qual) is not None and self.A.returns_fresh[c.qual].kind == DERIVED
                       for c in cands):
                    return Val(DERIVED, root="unknown", why="spawn does not return a fresh object")
                return Val(DEEP, typ=typ, vfresh=vf)
            if name in ("copy",) and not call.args:
                return Val(SHALLOW, typ=rv.typ)
            if name in ("get", "setdefault"):
                # an element of a container this activation allocated (deeply fresh) is its own; `setdefault` may also store its
                # second argument, which is fresh when it is a literal
                return Val(DERIVED, root=rv.root or "unknown") if rv.kind != DEEP else Val(DEEP, root=rv.root)
            if name in ("pop", "popitem", "popleft"):
                return Val(DERIVED, root=rv.root or "unknown") if rv.kind != DEEP else Val(DEEP, root=rv.root)
            if name in ("items", "keys", "values"):
                return Val(SHALLOW if rv.kind != DEEP else DEEP, typ="list", root=rv.root)
            if name in ("encode", "split", "strip", "replace", "format", "join", "startswith", "lower", "upper"):
                return Val(DEEP, typ="immutable")
            # classmethod constructors of repo classes: X.lift(...), cls.diag(...), FST.from_string(...)
            rc = None
            if isinstance(recv, ast.Name):
                if recv.id == "cls" and self.f.cls is not None:
                    rc = self.f.cls
                else:
                    r = self.P.resolve_name(self.f.module, recv.id)
                    if r and r[0] == "class":
                        rc = r[1]
            elif isinstance(recv, ast.Attribute) and recv.attr == "__class__" and self.f.cls is not None:
                rc = self.f.cls
            if rc is not None:
                m = rc.lookup(name)
                if m and m[0] == "method":
                    rf = self.A.returns_fresh.get(m[1].qual)
                    if rf is None:
                        return Val(DEEP, typ=rc)
                    if rf.kind != DERIVED:
                        return Val(rf.kind, typ=rf.typ or rc, vfresh=rf.vfresh)
                    return Val(DERIVED, root="unknown")
            # instance methods with a "returns fresh" summary
            cands = self.A.resolve_method(rv.typ, name)
            if cands:
                vals = [self.A.returns_fresh.get(c.qual) for c in cands]
                if all(v is None or v.kind != DERIVED for v in vals):
                    known = [v for v in vals if v is not None]
                    k = min([v.kind for v in known], default=DEEP)
                    typs = {v.typ for v in known}
                    return Val(k, typ=typs.pop() if len(typs) == 1 else None, vfresh=all(v.vfresh for v in known))
                root = rv.root
                if name == "chart" and rv.root in ("self", "cache"):
                    root = "cache"
                return Val(DERIVED, root=root or "unknown")
            return Val(DERIVED, root=rv.root or "unknown")
        # ----- self.__class__(...) / other callables
        if isinstance(fn, ast.Call):
            return Val(DERIVED, root="unknown")
        return Val(DERIVED, root="unknown")

    def _resolve_plain(self, name):
        g = self.f
        while g is not None:
            q = f"{g.qual}.{name}"
            if q in self.P.funcs:
                return self.P.funcs[q]
            g = g.outer
        r = self.P.resolve_name(self.f.module, name)
        if r and r[0] == "func":
            return r[1]
        return None

    def _construct(self, clsname, call):
        vf = True
        if tname(clsname) == "CFG":
            varg = None
            for k in call.keywords:
                if k.arg == "V":
                    varg = k.value
            if varg is None and len(call.args) >= 3:
                varg = call.args[2]
            if varg is not None:
                vf = self.eval(varg).kind != DERIVED
        return Val(DEEP, typ=clsname, vfresh=vf)


# `self.__class__(...)` is a Call whose func is an Attribute named __class__: handle in eval_call through a hook
_orig_eval_call = _Walker.eval_call


def _eval_call(self, call):
    fn = call.func
    if isinstance(fn, ast.Attribute) and fn.attr == "__class__" and isinstance(fn.value, ast.Name):
        base = self.eval(fn.value)
        typ = base.typ or self.f.cls
        return self._construct(typ, call)
    return _orig_eval_call(self, call)


_Walker.eval_call = _eval_call
