"""Program model: modules, classes (with MRO), functions (qualified names,
nested ones included), import resolution, class-level patches.

Units = every *.py under <repo>/genlm/grammar (what `pyproject` ships).
"""

from __future__ import annotations

import ast
import os
import hashlib
import warnings

PKG_REL = "genlm/grammar"
PKG_DOTTED = "genlm.grammar"


class AnalysisError(Exception):
    """The analysis cannot decide (anchor vanished, unrecognised shape, ...).

    Reported as ANALYSIS-ERROR / exit 2 -- never a silent pass, never a fake
    VIOLATION.
    """


def repo_root():
    return os.environ.get("SA_REPO", "/repo")


class Module:
    def __init__(self, rel, path, src, transform=None):
        self.rel = rel  # e.g. 'cfg.py', 'parse/earley.py'
        self.path = path
        self.src = src
        with warnings.catch_warnings():
            warnings.simplefilter("ignore")
            self.tree = ast.parse(src, filename=path)
        self.transform_log = transform(self.tree) if transform is not None else []
        if self.transform_log:
            # positions must follow program order again (rules compare them): the transformed view gets its own text.  Its
            # line numbers never reach a report: the view is only used to discharge obligations (report.run_rules).
            self.src = src = ast.unparse(self.tree)
            self.tree = ast.parse(src, filename=path)
        self.lines = src.splitlines()
        self.imports = {}  # local name -> ('module', rel) | ('name', rel, name) | ('ext', dotted)
        set_parents(self.tree)

    @property
    def dotted(self):
        d = self.rel[:-3].replace("/", ".")
        if d.endswith("__init__"):
            d = d[: -len("__init__")].rstrip(".")
        return PKG_DOTTED + ("." + d if d else "")


def set_parents(tree):
    for node in ast.walk(tree):
        for child in ast.iter_child_nodes(node):
            child._parent = node
    tree._parent = None


def parent(node):
    return getattr(node, "_parent", None)


def ancestors(node):
    node = parent(node)
    while node is not None:
        yield node
        node = parent(node)


class Func:
    def __init__(self, qual, node, module, cls, outer):
        self.qual = qual
        self.node = node
        self.module = module
        self.cls = cls  # Cls or None (for nested functions: the class of the outermost method)
        self.outer = outer  # enclosing Func or None
        self.name = node.name
        self.decorators = [decorator_name(d) for d in node.decorator_list]

    @property
    def is_property(self):
        return any(d in ("property", "cached_property") for d in self.decorators)

    @property
    def params(self):
        a = self.node.args
        return [x.arg for x in a.posonlyargs + a.args]

    def __repr__(self):
        return f"<Func {self.qual}>"

    @property
    def line(self):
        return self.node.lineno


def decorator_name(d):
    if isinstance(d, ast.Name):
        return d.id
    if isinstance(d, ast.Attribute):
        return d.attr
    if isinstance(d, ast.Call):
        return decorator_name(d.func)
    return "?"


class Cls:
    def __init__(self, name, node, module):
        self.name = name
        self.node = node
        self.module = module
        self.key = (module.rel, name)
        self.methods = {}  # name -> Func
        self.attrs = {}  # class-body assignments: name -> value expr
        self.patches = {}  # module-level `Cls.x = ...`: name -> (value expr, stmt)
        self.base_exprs = list(node.bases)
        self.bases = []  # resolved Cls objects (repo classes only)
        self.ext_bases = []  # names of non-repo bases

    def __repr__(self):
        return f"<Cls {self.module.rel}::{self.name}>"

    def mro(self):
        out, seen = [], set()

        def go(c):
            if c.key in seen:
                return
            seen.add(c.key)
            out.append(c)
            for b in c.bases:
                go(b)

        go(self)
        return out

    def lookup(self, name):
        """Resolve a member through the MRO -> ('method', Func) | ('attr', expr) | ('patch', expr) | None.
        Module-level patches win over the class body of the same class."""
        for c in self.mro():
            if name in c.patches:
                return ("patch", c.patches[name][0], c)
            if name in c.methods:
                return ("method", c.methods[name], c)
            if name in c.attrs:
                return ("attr", c.attrs[name], c)
        return None

    def is_subclass_of(self, other):
        return any(c.key == other.key for c in self.mro())


class Program:
    def __init__(self, root=None, transform=None):
        self.root = root or repo_root()
        self.transform = transform
        self._inlined = None
        self.pkg = os.path.join(self.root, PKG_REL)
        if not os.path.isdir(self.pkg):
            raise AnalysisError(f"package directory {self.pkg} not found")
        self.modules = {}
        self.funcs = {}
        self.classes = {}  # (rel, name) -> Cls
        self._load()
        self._index()
        self._resolve_imports()
        self._resolve_bases()
        self._dynamic_tricks()

    # ------------------------------------------------------------------ load
    def _load(self):
        for dirpath, dirnames, filenames in os.walk(self.pkg):
            dirnames[:] = sorted(d for d in dirnames if d != "__pycache__")
            for fn in sorted(filenames):
                if not fn.endswith(".py"):
                    continue
                path = os.path.join(dirpath, fn)
                rel = os.path.relpath(path, self.pkg)
                with open(path, encoding="utf-8") as f:
                    src = f.read()
                try:
                    self.modules[rel] = Module(rel, path, src, self.transform)
                except SyntaxError as e:
                    raise AnalysisError(f"{rel}: does not parse: {e}")

    def inlined_views(self):
        """semantics-preserving re-writings of the same tree (sa/inline.py), used by report.run_rules to discharge obligations a
        rule cannot discharge on the text as written: single-assignment temporaries replaced by their definitions; extracted
        helpers folded back into their callers (all of them, then one view per *new* helper name); both"""
        if self.transform is not None:
            return
        from .inline import inline_module, inline_temporaries, inline_both, callee_of_log, ESTABLISHED_HELPERS
        import functools
        if self._inlined is None:
            self._inlined = {}
        C = self._inlined
        import sa.inline as _inl
        # plain properties (not cached ones) are re-evaluated on every read (I / F build a new generator each time)
        _inl.VOLATILE_ATTRS = {f.name for f in self.funcs.values() if "property" in f.decorators and "cached_property" not in f.decorators
                               and any(isinstance(n, (ast.Yield, ast.YieldFrom)) for n in walk_live(f.node))}

        def view(key, tr):
            if key not in C:
                P2 = Program(self.root, transform=tr)
                C[key] = P2 if any(m.transform_log for m in P2.modules.values()) else None
            return C[key]

        v = view("temporaries", inline_temporaries)
        if v is not None:
            yield "temporaries", v
        allh = view("all helpers", inline_module)
        if allh is None:
            return
        yield "all helpers", allh
        v = view("all helpers + temporaries", inline_both)
        if v is not None:
            yield "all helpers + temporaries", v
        names = sorted({callee_of_log(l) for m in allh.modules.values() for l in m.transform_log if ": inlined " in l})
        for nm in names:
            if nm in ESTABLISHED_HELPERS:
                continue  # the rules are calibrated on these helpers as written
            v = view("helper " + nm, functools.partial(inline_both, only={nm}))
            if v is not None:
                yield "helper " + nm, v

    def digest(self):
        h = hashlib.sha256()
        for rel in sorted(self.modules):
            h.update(rel.encode())
            h.update(self.modules[rel].src.encode())
        return h.hexdigest()[:16]

    def _index(self):
        for m in self.modules.values():
            self._index_body(m, m.tree.body, prefix="", cls=None, outer=None)
            # module-level patches  `Name.attr = value`
            for st in m.tree.body:
                if isinstance(st, ast.Assign) and len(st.targets) == 1:
                    t = st.targets[0]
                    if isinstance(t, ast.Attribute) and isinstance(t.value, ast.Name):
                        m.__dict__.setdefault("patch_stmts", []).append(st)

    def _index_body(self, m, body, prefix, cls, outer):
        for st in body:
            if isinstance(st, (ast.FunctionDef, ast.AsyncFunctionDef)):
                qual = f"{m.rel}::{prefix}{st.name}"
                f = Func(qual, st, m, cls, outer)
                if qual in self.funcs:
                    # redefinition in the same scope: keep the last one (Python semantics)
                    pass
                self.funcs[qual] = f
                st._func = f
                if cls is not None and outer is None:
                    cls.methods[st.name] = f
                self._index_nested(m, st, prefix + st.name + ".", cls, f)
            elif isinstance(st, ast.ClassDef):
                c = Cls(st.name, st, m)
                self.classes[c.key] = c
                for s2 in st.body:
                    if isinstance(s2, ast.Assign):
                        for t in s2.targets:
                            if isinstance(t, ast.Name):
                                c.attrs[t.id] = s2.value
                    elif isinstance(s2, ast.AnnAssign) and isinstance(s2.target, ast.Name) and s2.value is not None:
                        c.attrs[s2.target.id] = s2.value
                self._index_body(m, st.body, prefix + st.name + ".", c, None)
            elif isinstance(st, (ast.If, ast.Try, ast.With, ast.For, ast.While)):
                # definitions under module/class-level control flow
                for fld in ("body", "orelse", "finalbody"):
                    self._index_body(m, getattr(st, fld, []) or [], prefix, cls, outer)
                for h in getattr(st, "handlers", []) or []:
                    self._index_body(m, h.body, prefix, cls, outer)

    def _index_nested(self, m, fnode, prefix, cls, outer):
        # nested defs anywhere inside the function body (not inside nested classes)
        def visit(node):
            for child in ast.iter_child_nodes(node):
                if isinstance(child, (ast.FunctionDef, ast.AsyncFunctionDef)):
                    qual = f"{m.rel}::{prefix}{child.name}"
                    f = Func(qual, child, m, cls, outer)
                    self.funcs[qual] = f
                    child._func = f
                    self._index_nested(m, child, prefix + child.name + ".", cls, f)
                elif isinstance(child, ast.ClassDef):
                    continue
                elif isinstance(child, ast.Lambda):
                    visit(child)
                else:
                    visit(child)

        visit(fnode)

    # --------------------------------------------------------------- imports
    def _mod_by_dotted(self, dotted):
        if not (dotted == PKG_DOTTED or dotted.startswith(PKG_DOTTED + ".")):
            return None
        tail = dotted[len(PKG_DOTTED) :].lstrip(".")
        cand = []
        if tail == "":
            cand = ["__init__.py"]
        else:
            p = tail.replace(".", "/")
            cand = [p + ".py", p + "/__init__.py"]
        for c in cand:
            if c in self.modules:
                return self.modules[c]
        return None

    def _resolve_imports(self):
        for m in self.modules.values():
            for node in ast.walk(m.tree):
                if isinstance(node, ast.ImportFrom):
                    mod = node.module or ""
                    if node.level:
                        base = m.dotted.split(".")
                        if not m.rel.endswith("__init__.py"):
                            base = base[:-1]
                        base = base[: len(base) - (node.level - 1)]
                        mod = ".".join(base + ([mod] if mod else []))
                    target = self._mod_by_dotted(mod)
                    for a in node.names:
                        local = a.asname or a.name
                        if target is None:
                            m.imports.setdefault(local, ("ext", f"{mod}.{a.name}"))
                            continue
                        sub = self._mod_by_dotted(mod + "." + a.name)
                        if sub is not None and not self._defines(target, a.name):
                            m.imports[local] = ("module", sub.rel)
                        else:
                            m.imports[local] = ("name", target.rel, a.name)
                elif isinstance(node, ast.Import):
                    for a in node.names:
                        local = a.asname or a.name.split(".")[0]
                        t = self._mod_by_dotted(a.name)
                        if t is not None and a.asname:
                            m.imports[local] = ("module", t.rel)
                        else:
                            m.imports.setdefault(local, ("ext", a.name))

    def _defines(self, module, name):
        for st in module.tree.body:
            if isinstance(st, (ast.FunctionDef, ast.ClassDef)) and st.name == name:
                return True
            if isinstance(st, ast.Assign):
                for t in st.targets:
                    if isinstance(t, ast.Name) and t.id == name:
                        return True
        return name in module.imports and module.imports[name][0] == "name"

    def resolve_name(self, module, name, depth=0):
        """Resolve a module-level name to ('class', Cls) | ('func', Func) | ('module', Module)
        | ('value', Module, expr) | ('ext', dotted) | None, following re-exports."""
        if depth > 8:
            return None
        if (module.rel, name) in self.classes:
            return ("class", self.classes[(module.rel, name)])
        q = f"{module.rel}::{name}"
        if q in self.funcs:
            return ("func", self.funcs[q])
        for st in module.tree.body:
            if isinstance(st, ast.Assign):
                for t in st.targets:
                    if isinstance(t, ast.Name) and t.id == name:
                        return ("value", module, st.value)
        imp = module.imports.get(name)
        if imp is None:
            return None
        if imp[0] == "module":
            return ("module", self.modules[imp[1]])
        if imp[0] == "name":
            return self.resolve_name(self.modules[imp[1]], imp[2], depth + 1)
        return ("ext", imp[1])

    def resolve_expr_class(self, module, expr):
        """Resolve `Name` or `mod.Name` to a repo class, else None."""
        if isinstance(expr, ast.Name):
            r = self.resolve_name(module, expr.id)
            if r and r[0] == "class":
                return r[1]
        elif isinstance(expr, ast.Attribute) and isinstance(expr.value, ast.Name):
            r = self.resolve_name(module, expr.value.id)
            if r and r[0] == "module":
                r2 = self.resolve_name(r[1], expr.attr)
                if r2 and r2[0] == "class":
                    return r2[1]
        return None

    def _resolve_bases(self):
        for c in self.classes.values():
            for b in c.base_exprs:
                rc = self.resolve_expr_class(c.module, b)
                if rc is not None:
                    c.bases.append(rc)
                else:
                    c.ext_bases.append(ast.unparse(b))
        # class patches
        for m in self.modules.values():
            for st in m.__dict__.get("patch_stmts", []):
                t = st.targets[0]
                rc = self.resolve_expr_class(m, t.value)
                if rc is not None:
                    rc.patches[t.attr] = (st.value, st)

    def _dynamic_tricks(self):
        self.dynamic_sites = []
        for m in self.modules.values():
            for node in ast.walk(m.tree):
                if isinstance(node, ast.Call) and isinstance(node.func, ast.Name) and node.func.id in ("setattr", "exec", "eval", "delattr"):
                    self.dynamic_sites.append((m.rel, node.lineno, node.func.id))
                if isinstance(node, ast.FunctionDef) and node.name in ("__getattr__", "__setattr__", "__getattribute__"):
                    self.dynamic_sites.append((m.rel, node.lineno, node.name))

    # --------------------------------------------------------------- lookups
    def func(self, qual):
        f = self.funcs.get(qual)
        if f is None:
            raise AnalysisError(f"anchor function {qual} not found in the working tree")
        return f

    def has_func(self, qual):
        return qual in self.funcs

    def cls(self, rel, name):
        c = self.classes.get((rel, name))
        if c is None:
            raise AnalysisError(f"anchor class {rel}::{name} not found in the working tree")
        return c

    def module(self, rel):
        m = self.modules.get(rel)
        if m is None:
            raise AnalysisError(f"module {rel} not found in the working tree")
        return m

    def funcs_in(self, rel):
        return [f for f in self.funcs.values() if f.module.rel == rel]

    def stats(self):
        return {
            "modules": len(self.modules),
            "classes": len(self.classes),
            "functions": len(self.funcs),
            "digest": self.digest(),
        }


# ---------------------------------------------------------------------------
# helpers on function nodes


def enclosing_func_node(node):
    for a in ancestors(node):
        if isinstance(a, (ast.FunctionDef, ast.AsyncFunctionDef, ast.Lambda)):
            return a
    return None


def const_truth(test):
    """Truth value of a constant test (`if 0:`), else None."""
    if isinstance(test, ast.Constant):
        return bool(test.value)
    return None


def is_dead(node):
    """True if `node` lies in a branch pruned by a constant test (`if 0:` ... / else of `if 1:`)."""
    child = node
    for a in ancestors(node):
        if isinstance(a, ast.If):
            tv = const_truth(a.test)
            if tv is not None:
                in_body = any(child is s for s in a.body)
                in_else = any(child is s for s in a.orelse)
                if (in_body and not tv) or (in_else and tv):
                    return True
        if isinstance(a, (ast.FunctionDef, ast.AsyncFunctionDef, ast.ClassDef, ast.Module)):
            pass
        child = a
    return False


def walk_live(node, into_nested=False):
    """ast.walk restricted to live code; by default does not descend into nested
    function/class definitions (lambdas and comprehensions are descended)."""
    stack = [node]
    first = True
    while stack:
        n = stack.pop()
        if not first and isinstance(n, (ast.FunctionDef, ast.AsyncFunctionDef, ast.ClassDef)) and not into_nested:
            continue
        first = False
        yield n
        if isinstance(n, ast.If):
            tv = const_truth(n.test)
            if tv is True:
                stack.extend(reversed(n.body))
                stack.append(n.test)
                continue
            if tv is False:
                stack.extend(reversed(n.orelse))
                stack.append(n.test)
                continue
        stack.extend(reversed(list(ast.iter_child_nodes(n))))


def unparse(node):
    return ast.unparse(node) if node is not None else ""


def norm(node):
    """Normalised text of a node (comments/whitespace dropped) -- used to key findings."""
    s = ast.unparse(node)
    return " ".join(s.split())


def stmt_of(node):
    """Nearest enclosing statement."""
    n = node
    while n is not None and not isinstance(n, ast.stmt):
        n = parent(n)
    return n


def first_line(node):
    s = norm(node)
    return s if len(s) <= 160 else s[:157] + "..."
