"""Repository-specific static analysis for genlm-grammar (properties C01..C20).

Nothing under /repo is imported or executed: every check re-parses the working
tree with the stdlib `ast` module and decides structural clauses of the
properties (see /verif/DESIGN.md).
"""
