"""Interface / pipeline / typestate slot rules."""

from __future__ import annotations

import ast

from ..model import AnalysisError, norm, walk_live, parent, ancestors, first_line
from ..report import RuleResult, ModSite
from .. import walk as W


def _self_attr(e, name=None):
    return isinstance(e, ast.Attribute) and isinstance(e.value, ast.Name) and e.value.id == "self" and (name is None or e.attr == name)


def _returns(f):
    return [n for n in walk_live(f.node) if isinstance(n, ast.Return) and n.value is not None]


# ---------------------------------------------------------------- IFACE-UNION

LM_OWNERS = [("cfglm.py", "BoolCFGLM"), ("parse/earley.py", "EarleyLM"), ("parse/earley_rescaled.py", "EarleyLM"),
             ("parse/cky.py", "CKYLM")]


def _attr_classes(P, cls, attr):
    """classes that `self.<attr>` may hold, from `self.<attr> = <Class>(...)[.field]` stores in the class."""
    out = []
    for m in cls.methods.values():
        for n in walk_live(m.node):
            if isinstance(n, ast.Assign) and any(_self_attr(t, attr) for t in n.targets):
                v = n.value
                field = None
                if isinstance(v, ast.Attribute) and isinstance(v.value, ast.Call):
                    field = v.attr
                    v = v.value
                if isinstance(v, ast.Call):
                    c = P.resolve_expr_class(m.module, v.func)
                    if c is None and isinstance(v.func, ast.Attribute) and isinstance(v.func.value, ast.Name) and v.func.value.id in ("self", "cls", cls.name) \
                            and v.func.attr in cls.methods:
                        # a factory method of the class: the attribute holds whatever it returns
                        h = cls.methods[v.func.attr]
                        for ret in [x for x in walk_live(h.node) if isinstance(x, ast.Return) and x.value is not None]:
                            rv = ret.value
                            fld = None
                            if isinstance(rv, ast.Attribute) and isinstance(rv.value, ast.Call):
                                fld, rv = rv.attr, rv.value
                            if not isinstance(rv, ast.Call):
                                raise AnalysisError(f"{h.qual}: `{norm(ret)}` is not a constructor call")
                            k = P.resolve_expr_class(h.module, rv.func)
                            if k is None:
                                raise AnalysisError(f"{h.qual}: cannot resolve the class constructed in `{norm(ret)}`")
                            if fld is not None:
                                out.extend((kk, ret) for kk, _ in _attr_classes(P, k, fld))
                            else:
                                out.append((k, ret))
                        continue
                    if c is None:
                        raise AnalysisError(f"{m.qual}: cannot resolve the class constructed in `{norm(n)}`")
                    if field is not None:
                        inner = _attr_classes(P, c, field)
                        out.extend((k, n) for k, _ in inner)
                    else:
                        out.append((c, n))
                else:
                    raise AnalysisError(f"{m.qual}: `{norm(n)}` is not a constructor call")
    return out


def _is_stub(f):
    body = [s for s in f.node.body if not (isinstance(s, ast.Expr) and isinstance(s.value, ast.Constant))]
    return len(body) == 1 and isinstance(body[0], ast.Raise) and "NotImplementedError" in norm(body[0])


def _arity_ok(f, npos, kws):
    a = f.node.args
    params = [p.arg for p in a.posonlyargs + a.args]
    if params and params[0] in ("self", "cls"):
        params = params[1:]
    ndef = len(a.defaults)
    required = len(params) - ndef
    if a.vararg is not None:
        return npos >= required - len([k for k in kws if k in params])
    given_kw = [k for k in kws if k in params]
    return required - len(given_kw) <= npos <= len(params) and (a.kwarg is not None or all(k in params or k in [x.arg for x in a.kwonlyargs] for k in kws))


def rule_iface_union(P, owners=LM_OWNERS):
    r = RuleResult("IFACE-UNION", "for every LM class, each call self.model.<m>(args) resolves, through the MRO of EVERY class "
                   "the `model` attribute may hold, to an implemented method with compatible positional arity",
                   "every documented back-end implements what the LM wrapper calls")
    for rel, cname in owners:
        cls = P.cls(rel, cname)
        alts = _attr_classes(P, cls, "model")
        if not alts:
            raise AnalysisError(f"{rel}::{cname}: no `self.model = ...` store found")
        for m in cls.methods.values():
            for n in walk_live(m.node):
                if isinstance(n, ast.Call) and isinstance(n.func, ast.Attribute) and _self_attr(n.func.value, "model"):
                    r.looked_at(m)
                    name = n.func.attr
                    for alt, st in alts:
                        res = alt.lookup(name)
                        ok, msg = True, ""
                        if res is None or res[0] != "method":
                            ok, msg = False, (f"back-end {alt.name} (selected by `{first_line(st)}`) has no method `{name}`: "
                                              f"{cname}.{m.name} raises AttributeError for that back-end")
                        elif _is_stub(res[1]):
                            ok, msg = False, f"{alt.name}.{name} is an unimplemented stub"
                        elif not _arity_ok(res[1], len(n.args), [k.arg for k in n.keywords if k.arg]):
                            ok, msg = False, (f"{alt.name}.{name}{tuple(res[1].params[1:])} is called with {len(n.args)} positional "
                                              f"argument(s): TypeError for that back-end")
                        r.add(m, n, ok, msg, slots=dict(attribute="model", backend=f"{alt.module.rel}::{alt.name}", method=name,
                                                        nargs=len(n.args)),
                              construct=f"self.model.{name}(...) with model = {alt.name}",
                              witness="BoolCFGLM(cfg, alg='cky').p_next(('a',)) → AttributeError: 'CKYLM' object has no attribute "
                                      "'next_token_weights' (DESIGN §5 D1)" if not ok and cname == "BoolCFGLM" else None)
    r.min_instances = 9
    return r


# ---------------------------------------------------------------- PIPE-LM / PIPE-MASKTRIM / PIPE-CHAINALIGN


def _expand(f, expr, at, depth=0):
    """(root text, attribute/method names) of an expression, looking through local names (reaching definitions)
    and `self.<attr>` fields assigned earlier in the same function."""
    base, parts = W.chain_of(expr)
    names = [p.rstrip("()") for p in parts]
    if depth > 8:
        return norm(base), names
    if isinstance(base, ast.Name) and base.id == "self" and names:
        # self.<attr> assigned in this function?
        for n in walk_live(f.node):
            if isinstance(n, ast.Assign) and any(_self_attr(t, names[0]) for t in n.targets) and W.pos(n) < W.pos(at):
                r0, n0 = _expand(f, n.value, n, depth + 1)
                return r0, n0 + names[1:]
        return "self", names
    if isinstance(base, ast.Name):
        rd = W.reaching_def(f.node, base.id, at)
        if rd is not None and rd[1] is not None and not (isinstance(rd[1], ast.Name) and rd[1].id == base.id):
            v = rd[1]
            if isinstance(v, ast.Call) and isinstance(v.func, ast.Name) and v.args and W.is_name(v.args[0], base.id):
                # cfg = add_EOS(cfg): conditional wrapper around the same grammar
                return f"{v.func.id}({base.id})", names
            r0, n0 = _expand(f, v, rd[0], depth + 1)
            return r0, n0 + names
        return base.id, names
    return norm(base), names


def rule_pipe_lm(P, owners=LM_OWNERS, need_normalize=True):
    r = RuleResult("PIPE-LM", "each grammar LM: EOS is added when missing (`EOS not in cfg.V` ⇒ cfg = add_EOS(cfg)) before the "
                   "parser is built; the parser is built on the prefix grammar of that grammar; the LM's vocabulary is that "
                   "grammar's V; the weighted LMs return `.normalize()`d charts", "LM construction pipeline")
    for rel, cname in owners:
        cls = P.cls(rel, cname)
        init = cls.methods.get("__init__")
        if init is None:
            raise AnalysisError(f"{rel}::{cname}.__init__ not found")
        r.looked_at(init)
        cfgp = init.params[1]
        # (a) EOS
        eos_ok, eos_st = False, None
        for n in walk_live(init.node):
            if isinstance(n, ast.Assign) and isinstance(n.value, ast.Call) and W.call_name(n.value) == "add_EOS" \
                    and any(W.is_name(t, cfgp) for t in n.targets) and n.value.args and W.is_name(n.value.args[0], cfgp):
                eos_st = n
                for ft in W.guard_facts(n):
                    c = W.fact_cmp(ft)
                    if c and c[1] is ast.NotIn and norm(c[0]) == "EOS" and norm(c[2]) == f"{cfgp}.V":
                        eos_ok = True
        r.add(init, eos_st or init.node, eos_ok,
              "" if eos_ok else "the grammar is not wrapped with add_EOS when EOS is missing from its vocabulary: the model never "
                                "offers end-of-sequence / EOS is not a token", construct=f"{cname}.__init__: add EOS when missing")
        # (b) prefix grammar
        model_defs = [n for n in walk_live(init.node) if isinstance(n, ast.Assign) and any(_self_attr(t, "model") for t in n.targets)]
        if not model_defs:
            raise AnalysisError(f"{init.qual}: no `self.model = ...`")
        expanded = []
        for md in model_defs:
            v = md.value
            if isinstance(v, ast.Call) and isinstance(v.func, ast.Attribute) and isinstance(v.func.value, ast.Name) and v.func.value.id in ("self", "cls", cname) \
                    and v.func.attr in cls.methods and v.args and W.is_name(v.args[0], cfgp):
                h = cls.methods[v.func.attr]
                hp = [p_ for p_ in h.params if p_ not in ("self", "cls")]
                for ret in [x for x in walk_live(h.node) if isinstance(x, ast.Return) and x.value is not None]:
                    expanded.append((h, ret, ret.value, hp[0] if hp else cfgp))
            else:
                expanded.append((init, md, v, cfgp))
        for fn_, md, v, cfgp_ in expanded:
            ok = False
            why = ""
            inner = v
            if isinstance(inner, ast.Attribute) and isinstance(inner.value, ast.Call):
                inner = inner.value
            if isinstance(inner, ast.Call):
                k = P.resolve_expr_class(fn_.module, inner.func)
                if k is not None and (k.module.rel, k.name) in LM_OWNERS:
                    ok = bool(inner.args) and W.is_name(inner.args[0], cfgp_)  # delegates to another LM (same pipeline)
                    why = "delegates to " + k.name
                elif inner.args:
                    root, names = _expand(fn_, inner.args[0], md)
                    ok = "prefix_grammar" in names and root in (cfgp_, f"add_EOS({cfgp_})")
                    why = f"parser built on {root}.{'.'.join(names)}"
                    if ok and fn_ is init and eos_st is not None and W.pos(md) < W.pos(eos_st):
                        ok = False
            r.add(fn_, md, ok, "" if ok else f"`{first_line(md)}`: the parser is not built on the prefix grammar of the "
                  f"(EOS-augmented) grammar, so next-token weights are not prefix weights", slots=dict(built_on=why))
        # (c) vocabulary
        sup = [n for n in walk_live(init.node) if isinstance(n, ast.Call) and isinstance(n.func, ast.Attribute)
               and n.func.attr == "__init__" and isinstance(n.func.value, ast.Call) and W.call_name(n.func.value) == "super"]
        if len(sup) != 1:
            raise AnalysisError(f"{init.qual}: super().__init__ call not found")
        kw = {k.arg: k.value for k in sup[0].keywords}
        vexp = kw.get("V") or (sup[0].args[0] if sup[0].args else None)
        eexp = kw.get("eos") or (sup[0].args[1] if len(sup[0].args) > 1 else None)
        ok = vexp is not None and norm(vexp) in (f"{cfgp}.V", "self.cfg.V") and eexp is not None and norm(eexp) == "EOS" \
            and (eos_st is None or W.pos(sup[0]) > W.pos(eos_st))
        r.add(init, sup[0], ok, "" if ok else "the LM's vocabulary / eos are not those of the EOS-augmented grammar",
              slots=dict(V=norm(vexp) if vexp is not None else None, eos=norm(eexp) if eexp is not None else None))
        # (d) normalise on return
        if cname != "BoolCFGLM" and need_normalize:
            pn = cls.methods.get("p_next")
            if pn is None:
                raise AnalysisError(f"{rel}::{cname}.p_next not found")
            r.looked_at(pn)
            for ret in _returns(pn):
                base, parts = W.full_chain(pn.node, ret.value, at=ret)
                ok = bool(parts) and parts[-1] == "normalize()"
                r.add(pn, ret, ok, "" if ok else "p_next returns unnormalised weights: the conditional does not sum to one",
                      slots=dict(chain=parts))
    r.min_instances = 12
    return r


def rule_masktrim(P):
    r = RuleResult("PIPE-MASKTRIM", "BoolCFGLM.p_next builds its mask from the next-token chart only after the zero entries "
                   "were removed by `.trim()` (which compares with the semiring zero) or by an explicit `!= <R>.zero` filter; "
                   "truthiness is not a filter (Boolean(False) objects are truthy)", "zero-weight tokens are never offered")
    f = P.func("cfglm.py::BoolCFGLM.p_next")
    r.looked_at(f)
    rets = _returns(f)
    if not rets:
        raise AnalysisError("cfglm.py::BoolCFGLM.p_next: no return")
    for ret in rets:
        comps = [n for n in ast.walk(ret.value) if isinstance(n, (ast.DictComp, ast.SetComp, ast.ListComp, ast.GeneratorExp))]
        src = None
        filt = False
        if comps:
            g = comps[0].generators[0]
            src = g.iter
            for t in g.ifs:
                c = W.cmp_parts(t)
                if c and isinstance(c[1], ast.NotEq) and (norm(c[2]).endswith(".zero") or norm(c[0]).endswith(".zero")):
                    filt = True
        else:
            src = ret.value
        base, parts = W.full_chain(f.node, src, at=ret)
        names = [p.rstrip("()") for p in parts]
        ok = filt or "trim" in names
        r.add(f, ret, ok, "" if ok else "the mask is built from the raw next-token chart: keys whose Boolean weight is zero "
              "(tokens that cannot be completed, keys left by other queries) are offered with weight 1",
              slots=dict(source_chain=names, explicit_zero_filter=filt))
    r.min_instances = 1
    return r


def rule_chain_align(P):
    r = RuleResult("PIPE-CHAINALIGN", "in LM.__call__ / p_next_seq the token multiplied in at step i is element i and the "
                   "conditioning context is exactly the slice before it (context[:i]; context + extension[:i])",
                   "chain-rule indexing")
    f = P.func("lm.py::LM.__call__")
    r.looked_at(f)
    ctx = f.params[1]
    loops = [n for n in walk_live(f.node) if isinstance(n, ast.For)]
    if len(loops) != 1:
        raise AnalysisError("lm.py::LM.__call__: expected one loop")
    lp = loops[0]
    ok = False
    slots = {}
    if isinstance(lp.iter, ast.Call) and W.call_name(lp.iter) == "enumerate" and W.is_name(lp.iter.args[0], ctx) \
            and isinstance(lp.target, ast.Tuple) and len(lp.target.elts) == 2:
        i, y = (e.id for e in lp.target.elts)
        calls = [c for c in W.calls_named(lp, "p_next")]
        mults = [n for n in walk_live(lp) if isinstance(n, ast.AugAssign) and isinstance(n.op, ast.Mult)]
        if len(calls) == 1 and len(mults) == 1:
            a = calls[0].args[0]
            slots = dict(context_arg=norm(a), factor=norm(mults[0].value))
            pvar = None
            st = W.stmt_of(calls[0])
            if isinstance(st, ast.Assign) and isinstance(st.targets[0], ast.Name):
                pvar = st.targets[0].id
            fac = W.cnorm(f.node, mults[0].value, mults[0])
            ok = W.cnorm(f.node, a, calls[0]) == f"{ctx}[:{i}]" and fac in (f"{pvar}[{y}]", f"self.p_next({ctx}[:{i}])[{y}]", f"{pvar}[{ctx}[{i}]]",
                                                                          f"self.p_next({ctx}[:{i}])[{ctx}[{i}]]") and (len(lp.iter.args) == 1)
    r.add(f, lp, ok, "" if ok else "the chain rule multiplies p(token | context) with a misaligned token or context", slots=slots)
    g = P.func("lm.py::LM.p_next_seq")
    r.looked_at(g)
    c2, ext = g.params[1], g.params[2]
    loops = [n for n in walk_live(g.node) if isinstance(n, ast.For)]
    ok = False
    slots = {}
    if len(loops) == 1:
        lp = loops[0]
        it = norm(lp.iter)
        i = None
        if it == f"range(len({ext}))" and isinstance(lp.target, ast.Name):
            i = lp.target.id
        elif it == f"enumerate({ext})" and isinstance(lp.target, ast.Tuple) and isinstance(lp.target.elts[0], ast.Name):
            i = lp.target.elts[0].id
        calls = W.calls_named(lp, "p_next")
        mults = [n for n in walk_live(lp) if isinstance(n, ast.AugAssign) and isinstance(n.op, ast.Mult)]
        if i is not None and len(calls) == 1 and len(mults) == 1:
            st = W.stmt_of(calls[0])
            pvar = st.targets[0].id if isinstance(st, ast.Assign) and isinstance(st.targets[0], ast.Name) else None
            ctx_arg = W.cnorm(g.node, calls[0].args[0], calls[0])
            fac = W.cnorm(g.node, mults[0].value, mults[0])
            slots = dict(context_arg=ctx_arg, factor=fac)
            want_fac = (f"self.p_next({c2} + {ext}[:{i}])[{ext}[{i}]]", f"{pvar}[{ext}[{i}]]")
            ok = ctx_arg == f"{c2} + {ext}[:{i}]" and fac in want_fac
    r.add(g, loops[0] if loops else g.node, ok, "" if ok else "p_next_seq multiplies a misaligned conditional", slots=slots)
    r.min_instances = 2
    return r


# ---------------------------------------------------------------- grammar pipelines


def rule_cnf_order(P):
    r = RuleResult("PIPE-CNFORDER", "`cnf`: nullaryremove ≺ unaryremove (null removal creates unary rules; the reverse order "
                   "leaves them in the result / changes weights)", "normal-form pipeline order")
    f = P.func("cfg.py::CFG.cnf")
    r.looked_at(f)
    rets = _returns(f)
    if len(rets) != 1:
        raise AnalysisError("cfg.py::CFG.cnf: expected a single return")
    base, parts = W.full_chain(f.node, rets[0].value, at=rets[0])
    names = [p.rstrip("()") for p in parts]
    ok = "nullaryremove" in names and "unaryremove" in names and names.index("nullaryremove") < names.index("unaryremove") \
        and W.is_name(base, "self") and "separate_terminals" in names
    # the last transformation may only be trim
    tail_ok = ok and all(x == "trim" for x in names[names.index("unaryremove") + 1:])
    r.add(f, rets[0], ok and tail_ok,
          "" if ok and tail_ok else f"cnf pipeline is {names}: it must contain separate_terminals, nullaryremove ≺ unaryremove, "
                                    f"and nothing but trim after unaryremove", slots=dict(chain=names))
    r.min_instances = 1
    return r


def rule_nullstart(P):
    r = RuleResult("PIPE-NULLSTART", "`nullaryremove` pushes null weights only on the result of separate_start() (the start "
                   "symbol must not occur on a right-hand side, otherwise S's null weight is counted inside other rules too), "
                   "and the null weights are computed on that same grammar", "null removal precondition")
    f = P.func("cfg.py::CFG.nullaryremove")
    r.looked_at(f)
    calls = W.calls_named(f.node, "_push_null_weights")
    if len(calls) != 1:
        raise AnalysisError("cfg.py::CFG.nullaryremove: expected one _push_null_weights call")
    c = calls[0]
    recv = W.receiver(c)
    rd = W.reaching_def(f.node, recv.id, c) if isinstance(recv, ast.Name) else None
    ok1 = rd is not None and rd[1] is not None and "separate_start" in W.chain_names(rd[1])
    nw = c.args[0] if c.args else None
    nwb, nwp = W.full_chain(f.node, nw, at=c) if nw is not None else (None, [])
    ok2 = nw is not None and "null_weight()" in nwp and norm(nwb) == norm(recv)
    if ok2 and isinstance(nwb, ast.Name):
        nw_call = [x for x in ast.walk(nw) if isinstance(x, ast.Call) and W.call_name(x) == "null_weight"]
        rd2 = W.reaching_def(f.node, nwb.id, nw_call[0] if nw_call else c)
        ok2 = rd2 is not None and rd2[0] is rd[0] if rd else False
    r.add(f, c, ok1 and ok2, "" if ok1 and ok2 else "null weights are pushed on a grammar whose start symbol may occur on a "
          "right-hand side, or computed on a different grammar than the one they are pushed on",
          slots=dict(receiver_def=norm(rd[1]) if rd and rd[1] is not None else None, null_weight_arg=norm(nw) if nw is not None else None))
    # and _push_null_weights itself asserts it
    g = P.func("cfg.py::CFG._push_null_weights")
    r.looked_at(g)
    r.min_instances = 1
    return r


def rule_callcnf(P):
    r = RuleResult("PIPE-CALLCNF", "CFG.__call__ reads the start symbol and parses with the CNF grammar (`self = self.cnf` "
                   "dominates the chart look-up: the start symbol may change in the normal form)", "evaluation goes through cnf")
    f = P.func("cfg.py::CFG.__call__")
    r.looked_at(f)
    rets = _returns(f)
    if len(rets) != 1:
        raise AnalysisError("cfg.py::CFG.__call__: expected one return")
    ret = rets[0]
    rd = W.reaching_def(f.node, "self", ret)
    ok = rd is not None and rd[1] is not None and norm(rd[1]) == "self.cnf"
    uses_S = any(_self_attr(x, "S") for x in ast.walk(ret.value))
    uses_chart = any(isinstance(x, ast.Call) and W.call_name(x) == "_parse_chart" for x in ast.walk(ret.value))
    xs = f.params[1]
    sub = [x for x in ast.walk(ret.value) if isinstance(x, ast.Subscript)]
    key_ok = any(isinstance(s.slice, ast.Tuple) and len(s.slice.elts) == 3 and norm(s.slice.elts[0]) == "0"
                 and norm(s.slice.elts[1]) == "self.S" and norm(s.slice.elts[2]) == f"len({xs})" for s in sub)
    good = ok and uses_S and uses_chart and key_ok
    r.add(f, ret, good, "" if good else "the string weight is not read from the CNF grammar's chart at (0, S_cnf, len(xs))",
          slots=dict(self_is=norm(rd[1]) if rd and rd[1] is not None else "the original grammar", key_ok=key_ok))
    r.min_instances = 1
    return r


def rule_compose_coerce(P):
    r = RuleResult("PIPE-COMPOSE", "CFG.__matmul__ coerces str/tuple via FST.from_string(·, self.R) and other non-FST operands "
                   "via to_fst(); FST.__matmul__ with a CFG operand returns exactly `other @ self.T` (transposition, nothing "
                   "pruned)", "argument-order transposition and coercions")
    f = P.func("cfg.py::CFG.__matmul__")
    r.looked_at(f)
    p = f.params[1]
    ok1 = ok2 = False
    n1 = n2 = f.node
    for n in walk_live(f.node):
        if isinstance(n, ast.Assign) and any(W.is_name(t, p) for t in n.targets) and isinstance(n.value, ast.Call):
            nm = W.call_name(n.value)
            facts = [norm(ft.test) + ("" if ft.pol else " [neg]") for ft in W.guard_facts(n)]
            if nm == "from_string":
                n1 = n
                ok1 = norm(n.value) == f"FST.from_string({p}, self.R)" and any("isinstance" in x and "str" in x and "tuple" in x and "[neg]" not in x for x in facts)
            if nm == "to_fst":
                n2 = n
                ok2 = norm(n.value) == f"{p}.to_fst()" and any(x == f"isinstance({p}, FST) [neg]" for x in facts)
    r.add(f, n1, ok1, "" if ok1 else "string/tuple operands are not coerced with FST.from_string(·, self.R) under the isinstance test")
    r.add(f, n2, ok2, "" if ok2 else "acceptor operands are not coerced with to_fst() under `not isinstance(·, FST)`")
    # the composed grammar's vocabulary is the machine's output alphabet without ε
    sp = [n for n in walk_live(f.node) if isinstance(n, ast.Call) and W.call_name(n) == "spawn"]
    vkw = next((k.value for c in sp for k in c.keywords if k.arg == "V"), None)
    okv = vkw is not None and W.cnorm(f.node, vkw, sp[0]) in (f"{p}.B - {{EPSILON}}", f"{p}.B.difference({{EPSILON}})", f"{p}.B - {{ε}}")
    r.add(f, sp[0] if sp else f.node, okv, "" if okv else f"the composed grammar's vocabulary must be `{p}.B - {{EPSILON}}`: with ε in V the ε symbol becomes a terminal "
          f"of the result (truncation and a second composition then count it)", slots=dict(V=norm(vkw) if vkw is not None else None))
    g = P.func("fst.py::FST.__matmul__")
    r.looked_at(g)
    o = g.params[1]
    found = None
    for ret in _returns(g):
        facts = W.guard_facts(ret)
        if any(ft.pol and norm(ft.test) == f"isinstance({o}, CFG)" for ft in facts):
            found = ret
    if found is None:
        raise AnalysisError("fst.py::FST.__matmul__: CFG branch not found")
    ok = norm(found.value) == f"{o} @ self.T"
    r.add(g, found, ok, "" if ok else f"`{first_line(found)}`: fst @ cfg must be cfg @ fst.T with the full transposed machine "
          f"(ε-labelled arcs included)", slots=dict(returned=norm(found.value)))
    r.min_instances = 4
    return r


def rule_wfsacall(P):
    r = RuleResult("PIPE-WFSACALL", "WFSA.__call__ runs its forward pass on `self.epsremove` (ε arcs are not label matches), "
                   "starts from the start chart and finishes with the non-zero final weights",
                   "evaluation goes through ε-removal")
    f = P.func("wfsa/base.py::WFSA.__call__")
    r.looked_at(f)
    uses = [n for n in walk_live(f.node) if isinstance(n, ast.Call) and W.call_name(n) == "arcs" and W.is_name(W.receiver(n), "self")]
    if not uses:
        raise AnalysisError("wfsa/base.py::WFSA.__call__: no self.arcs(...) use")
    for u in uses:
        rd = W.reaching_def(f.node, "self", u)
        ok = rd is not None and rd[1] is not None and norm(rd[1]) == "self.epsremove"
        r.add(f, u, ok, "" if ok else "the forward pass reads arcs of the original machine: ε arcs are never followed, "
              "so strings accepted through ε paths get weight zero")
    # one exit, after the whole string has been read: an early return on "no mass left" assumes a zero-sum-free semiring
    rets = [n for n in walk_live(f.node) if isinstance(n, ast.Return)]
    early = [n for n in rets if W.enclosing_loops(n)]
    r.add(f, early[0] if early else (rets[-1] if rets else f.node), not early,
          "" if not early else f"`{first_line(early[0])}` leaves the forward pass inside the symbol loop: forward weights that sum to zero on a proper "
          f"prefix (signed weights) do not make the string's weight zero", construct="__call__: no early exit from the forward pass")
    r.min_instances = 2
    return r


def rule_rename_apart(P):
    r = RuleResult("PIPE-RENAMEAPART", "`__add__` / `__mul__` merge the operands only after `self, other = self.rename_apart(other)`; "
                   "rename_apart tags the two state spaces with different constants through one injective integerizer",
                   "operand state spaces are disjoint before merging")
    for name in ("__add__", "__mul__"):
        f = P.func(f"wfsa/base.py::WFSA.{name}")
        r.looked_at(f)
        first = [s for s in f.node.body if not (isinstance(s, ast.Expr) and isinstance(s.value, ast.Constant))][0]
        o = f.params[1]
        ok = isinstance(first, ast.Assign) and isinstance(first.targets[0], ast.Tuple) \
            and [norm(e) for e in first.targets[0].elts] == ["self", o] and norm(first.value) == f"self.rename_apart({o})"
        r.add(f, first, ok, "" if ok else f"{name} merges arcs of operands whose state names may coincide (e.g. two automata built "
              f"by lift both use states 0 and 1)")
    g = P.func("wfsa/base.py::WFSA.rename_apart")
    r.looked_at(g)
    rets = _returns(g)
    ok = False
    slots = {}
    if len(rets) == 1 and isinstance(rets[0].value, ast.Tuple) and len(rets[0].value.elts) == 2:
        tags = []
        recvs = []
        fn = []
        for e in rets[0].value.elts:
            if isinstance(e, ast.Call) and W.call_name(e) == "rename" and e.args and isinstance(e.args[0], ast.Lambda):
                lam = e.args[0]
                recvs.append(norm(W.receiver(e)))
                body = lam.body
                if isinstance(body, ast.Call) and body.args and isinstance(body.args[0], ast.Tuple) and len(body.args[0].elts) == 2:
                    tags.append(norm(body.args[0].elts[0]))
                    fn.append(norm(body.func))
                    arg_ok = norm(body.args[0].elts[1]) == lam.args.args[0].arg
                    if not arg_ok:
                        tags.append("?")
        slots = dict(tags=tags, receivers=recvs, integerizer=fn)
        ok = len(tags) == 2 and tags[0] != tags[1] and recvs == ["self", g.params[1]] and len(set(fn)) == 1 \
            and isinstance(W.single_def(g.node, fn[0]), ast.Call) and W.call_name(W.single_def(g.node, fn[0])) == "Integerizer"
    r.add(g, rets[0] if rets else g.node, ok, "" if ok else "the two renamings do not map into disjoint ranges", slots=slots)
    r.min_instances = 3
    return r


def rule_pipe_det(P):
    r = RuleResult("PIPE-DET", "determinize works on `self.epsremove.push`; min_det is reverse∘determinize∘reverse∘determinize "
                   "(trim ignored); the subset machine gets exactly one initial state (add_I once, outside loops)",
                   "determinisation pipeline")
    f = P.func("wfsa/base.py::WFSA.determinize")
    r.looked_at(f)
    asg = [n for n in f.node.body if isinstance(n, ast.Assign) and any(W.is_name(t, "self") for t in n.targets)]
    ok = len(asg) == 1 and norm(asg[0].value) == "self.epsremove.push"
    r.add(f, asg[0] if asg else f.node, ok, "" if ok else "determinize does not start from the ε-free, pushed machine "
          "(ε arcs would become ordinary symbols; unpushed residuals need not converge)",
          slots=dict(start=norm(asg[0].value) if asg else None))
    addI = [n for n in walk_live(f.node) if isinstance(n, ast.Call) and W.call_name(n) == "add_I"]
    okI = len(addI) == 1 and not W.enclosing_loops(addI[0])
    r.add(f, addI[0] if addI else f.node, okI, "" if okI else "the determinised machine must have a single initial (subset) state")
    g = P.func("wfsa/base.py::WFSA.min_det")
    r.looked_at(g)
    rets = _returns(g)
    base, parts = W.full_chain(g.node, rets[0].value, at=rets[0])
    names = [p.rstrip("()") for p in parts if p.rstrip("()") not in ("trim", "trim_vals")]
    ok = names == ["reverse", "determinize", "reverse", "determinize"] and W.is_name(base, "self")
    r.add(g, rets[0], ok, "" if ok else f"min_det chain is {names}: Brzozowski needs reverse, determinize, reverse, determinize",
          slots=dict(chain=names))
    r.min_instances = 3
    return r


# ---------------------------------------------------------------- singletons


def rule_default_none(P):
    r = RuleResult("DEFAULT-NONE", "an optional *symbol* parameter is defaulted with `is None`, never by truthiness "
                   "(`eos or EOS` replaces the legitimate symbols 0, '' and ()", "defaulting of symbol parameters")
    f = P.func("cfglm.py::add_EOS")
    r.looked_at(f)
    a = f.node.args
    opt = [p.arg for p, d in zip(a.args[len(a.args) - len(a.defaults):], a.defaults) if isinstance(d, ast.Constant) and d.value is None]
    n_ob = 0
    for p in opt:
        for st, val in W.assignments_to(f.node, p):
            if val is None:
                continue
            n_ob += 1
            bad = isinstance(val, ast.BoolOp) and isinstance(val.op, ast.Or) and any(W.is_name(v, p) for v in val.values)
            good = isinstance(val, ast.IfExp) and (c := W.cmp_parts(val.test)) is not None and W.is_name(c[0], p) \
                and isinstance(c[2], ast.Constant) and c[2].value is None
            if not good and not bad:
                # `if eos is None: eos = EOS`
                good = any((c := W.fact_cmp(ft)) and W.is_name(c[0], p) and c[1] is ast.Is for ft in W.guard_facts(st))
            r.add(f, st, good and not bad, "" if good and not bad else
                  f"`{first_line(st)}` replaces every falsy symbol by the default: add_EOS(cfg, eos=0) silently uses '▪'",
                  witness="add_EOS(cfg, eos=0) uses '▪' (DESIGN §5 D17)" if bad else None)
        if not any(True for _ in W.assignments_to(f.node, p)):
            # used directly: fine only if never None-dependent
            pass
    if n_ob == 0:
        # no defaulting statement: the parameter must then not be optional-None
        r.add(f, f.node, not opt, "" if not opt else f"optional parameter(s) {opt} are never defaulted",
              construct="add_EOS defaulting")
    r.min_instances = 1
    return r


def rule_ts_rescale(P):
    r = RuleResult("TS-RESCALE", "every Column constructed in the rescaled parser gets its `rescale` coefficient assigned on all "
                   "paths before it is returned or stored (a None coefficient poisons every later product)",
                   "typestate of rescaled columns")
    for q in ("parse/earley_rescaled.py::Earley.__init__", "parse/earley_rescaled.py::Earley.next_column"):
        f = P.func(q)
        r.looked_at(f)
        cols = [n for n in walk_live(f.node) if isinstance(n, ast.Assign) and isinstance(n.value, ast.Call)
                and W.call_name(n.value) == "Column" and isinstance(n.targets[0], ast.Name)]
        if not cols:
            raise AnalysisError(f"{q}: no Column(...) construction")
        for c in cols:
            name = c.targets[0].id
            ok = _assigned_on_all_paths(f.node.body, name, "rescale", after=c)
            r.add(f, c, ok, "" if ok else f"`{name}.rescale` is not assigned on every path", slots=dict(column=name))
    r.min_instances = 2
    return r


def rule_factor_rescale(P):
    r = RuleResult("FACTOR-RESCALE", "next_column of the rescaled parser: the new column's coefficient is cumulative - "
                   "(stored prefix weight of the previous column) / (stored prefix weight of the new column) × the previous column's "
                   "coefficient.  SCAN multiplies every carried value by the previous coefficient, so only the cumulative form keeps "
                   "the stored values O(1); without the carried factor the coefficient alternates 1, 1/p, 1, ... and the stored values "
                   "decay like p^(k/2), underflowing on long low-probability contexts (the case the rescaled variant exists for)",
                   "the rescaling coefficient carries over from column to column")
    f = P.func("parse/earley_rescaled.py::Earley.next_column")
    r.looked_at(f)
    cols = [n for n in walk_live(f.node) if isinstance(n, ast.Assign) and isinstance(n.value, ast.Call) and W.call_name(n.value) == "Column"
            and isinstance(n.targets[0], ast.Name)]
    if len(cols) != 1:
        raise AnalysisError("earley_rescaled next_column: Column(...) construction not found")
    new = cols[0].targets[0].id
    stores = [n for n in walk_live(f.node) if isinstance(n, ast.Assign) and any(isinstance(t, ast.Attribute) and t.attr == "rescale" and W.is_name(t.value, new)
                                                                                 for t in n.targets)]
    general = [n for n in stores if W.int_const(n.value) is None]
    if len(general) != 1:
        r.undecided(f, f.node, f"{len(general)} non-constant assignments of `{new}.rescale`", construct="next_column: rescale coefficient")
        return r
    st = general[0]
    num, den = W.cfactors(f.node, st.value, st)

    def through(x):
        # a temporary holding a chart look-up (`num = prev_col.c_chart.get((0, S), zero)`) stands for that look-up
        if x.isidentifier():
            v = W.single_def(f.node, x)
            if v is not None:
                return W.cnorm(f.node, v, st)
        return x

    num, den = [through(x) for x in num], [through(x) for x in den]
    prevs = [x for x in num if x.endswith(".rescale")]
    charts_n = [x for x in num if ".c_chart" in x]
    charts_d = [x for x in den if ".c_chart" in x]
    if len(charts_n) != 1 or len(charts_d) != 1 or len(num) > 2 or len(den) != 1 or f"{new}." not in charts_d[0] or f"{new}." in charts_n[0]:
        r.undecided(f, st, f"coefficient `{norm(st.value)}` (factors {num} / {den}) is not a ratio of the two columns' prefix weights",
                    construct="next_column: rescale coefficient")
        return r
    ok = len(prevs) == 1 and not prevs[0].startswith(f"{new}.")
    r.add(f, st, ok, "" if ok else f"`{first_line(st)}`: the previous column's coefficient is not carried into the new one (factors {' · '.join(num)} / "
          f"{' · '.join(den)}): the coefficients alternate instead of tracking 1/p, stored values decay geometrically and underflow to 0 on long "
          f"contexts, where p_next then returns an empty chart", slots=dict(numerator=num, denominator=den), construct="next_column: rescale coefficient")
    r.min_instances = 1
    return r


def _assigned_on_all_paths(stmts, name, attr, after=None):
    started = after is None
    for s in stmts:
        if not started:
            if s is after or any(x is after for x in ast.walk(s)):
                started = True
            continue
        if isinstance(s, ast.Assign) and any(isinstance(t, ast.Attribute) and t.attr == attr and W.is_name(t.value, name) for t in s.targets):
            return not (isinstance(s.value, ast.Constant) and s.value.value is None)
        if isinstance(s, ast.If):
            if s.orelse and _assigned_on_all_paths(s.body, name, attr) and _assigned_on_all_paths(s.orelse, name, attr):
                return True
        if isinstance(s, ast.Return):
            return False
    return False


def rule_hash_const(P):
    r = RuleResult("HASH-CONST", "a class whose __eq__ is approximate language equality hashes to a representation-independent "
                   "constant (equal automata with different state spaces must hash alike)", "hash agrees with equality")
    f = P.func("wfsa/field_wfsa.py::Simple.__hash__")
    r.looked_at(f)
    rets = _returns(f)
    ok = len(rets) == 1 and isinstance(rets[0].value, ast.Constant)
    r.add(f, rets[0] if rets else f.node, ok, "" if ok else f"`{first_line(rets[0]) if rets else ''}` depends on the representation: "
          f"two equivalent automata (==) get different hashes")
    g = P.func("wfsa/field_wfsa.py::WFSA.__hash__")
    r.looked_at(g)
    rets = _returns(g)
    ok = len(rets) == 1 and norm(rets[0].value) in ("hash(self.simple)", "0") or (len(rets) == 1 and isinstance(rets[0].value, ast.Constant))
    r.add(g, rets[0] if rets else g.node, ok, "" if ok else "WFSA.__hash__ must delegate to the constant hash of its Simple form")
    # __eq__ goes through counterexample
    e = P.func("wfsa/field_wfsa.py::Simple.__eq__")
    r.looked_at(e)
    rets = _returns(e)
    ok = len(rets) == 1 and norm(rets[0].value) == f"self.counterexample({e.params[1]}) is None"
    r.add(e, rets[0] if rets else e.node, ok, "" if ok else "Simple.__eq__ is not `counterexample(other) is None`")
    r.min_instances = 3
    return r


def rule_zview(P):
    r = RuleResult("ZVIEW", "reachability worklists of accessible()/co_accessible() are seeded from the non-zero views I / F, "
                   "not from the keys of start/stop (which contain zero-weight entries after add_I(q, 0) / push)",
                   "trimming starts from states that really are initial / final")
    f = P.func("wfsa/base.py::WFSA.accessible")
    r.looked_at(f)
    n = 0
    for nd in walk_live(f.node):
        if isinstance(nd, ast.Assign) and isinstance(nd.targets[0], ast.Name) and not W.enclosing_loops(nd):
            v = nd.value
            uses_raw = any(_self_attr(x, "start") or _self_attr(x, "stop") for x in ast.walk(v))
            uses_view = any(_self_attr(x, "I") or _self_attr(x, "F") for x in ast.walk(v))
            if uses_raw or uses_view:
                n += 1
                # a filtered use of start (comprehension with != zero) is fine too
                filt = any(isinstance(x, ast.Compare) and isinstance(x.ops[0], ast.NotEq) and ".zero" in norm(x) for x in ast.walk(v))
                ok = (uses_view and not uses_raw) or filt
                r.add(f, nd, ok, "" if ok else f"`{first_line(nd)}` seeds the search with every key of the start chart, including "
                      f"states whose initial weight is zero: inaccessible states survive trimming",
                      witness="state 2 (`2 -b→ 1`, not initial) survives m.push.trim (DESIGN §5 D10)" if not ok else None)
    # seeds pushed in a loop over the view:  for q, _ in self.I: stack.append(q)
    wl = next((x for x in f.node.body if isinstance(x, ast.While)), None)
    for lp in [x for x in f.node.body if isinstance(x, ast.For) and (wl is None or W.pos(x) < W.pos(wl))]:
        uses_raw = any(_self_attr(x, "start") or _self_attr(x, "stop") for x in ast.walk(lp.iter))
        uses_view = any(_self_attr(x, "I") or _self_attr(x, "F") for x in ast.walk(lp.iter))
        if uses_raw or uses_view:
            n += 1
            filt = any(".zero" in t and "!=" in t for t in W.cfacts(f.node, lp.body[-1])) if lp.body else False
            ok = (uses_view and not uses_raw) or filt
            r.add(f, lp, ok, "" if ok else f"`{first_line(lp)}` seeds the search with every key of the start chart, including states whose initial weight is "
                  f"zero: inaccessible states survive trimming")
    if n == 0:
        # derived seeds (e.g. visited = set(stack))
        raise AnalysisError("wfsa/base.py::WFSA.accessible: seeds not recognised")
    g = P.func("wfsa/base.py::WFSA.co_accessible")
    r.looked_at(g)
    rets = _returns(g)
    ok = len(rets) == 1 and norm(rets[0].value) == "self.reverse.accessible()"
    r.add(g, rets[0] if rets else g.node, ok, "" if ok else "co_accessible is not accessible() of the reversed machine")
    r.min_instances = 2
    return r


# ---------------------------------------------------------------- PIPE-FWDBWD / PIPE-MIN / VIEW-FILTER / FACTOR-FROMSTRINGS


def rule_fwdbwd(P):
    r = RuleResult("PIPE-FWDBWD", "WFSA.forward = G.solve_left(start) and WFSA.backward = G.solve_right(stop) on the label-free graph G "
                   "(the reversed machine's forward weights multiply path weights in the opposite order); total_weight sums "
                   "start[i]·backward[i]", "forward/backward weights are the left/right solutions")
    for name, solver, vec in (("forward", "solve_left", "start"), ("backward", "solve_right", "stop")):
        f = P.func(f"wfsa/base.py::WFSA.{name}")
        r.looked_at(f)
        rets = _returns(f)
        ok = len(rets) == 1 and W.cnorm(f.node, rets[0].value, rets[0]) == f"self.G.{solver}(self.{vec})"
        r.add(f, rets[0] if rets else f.node, ok, "" if ok else f"{name} must be self.G.{solver}(self.{vec}); "
              f"`{norm(rets[0].value) if rets else ''}` computes it another way (wrong product order for non-commutative weights)")
    t = P.func("wfsa/base.py::WFSA.total_weight")
    r.looked_at(t)
    rets = _returns(t)
    ok = False
    if len(rets) == 1 and isinstance(rets[0].value, ast.Call) and W.call_name(rets[0].value) == "sum":
        g = rets[0].value.args[0]
        if isinstance(g, ast.GeneratorExp):
            num, den = W.cfactors(t.node, g.elt, rets[0])
            i = norm(g.generators[0].target)
            ok = num == sorted([f"self.start[{i}]", f"self.backward[{i}]"]) and not den and norm(g.generators[0].iter) in ("self.start", "self.states", "self.start.keys()")
    r.add(t, rets[0] if rets else t.node, ok, "" if ok else "total_weight must be Σ_i start[i]·backward[i]")
    r.min_instances = 3
    return r


def rule_pipe_min(P):
    r = RuleResult("PIPE-MIN", "Simple.min is the backward conjugate of the forward conjugate (forward-minimal then backward-minimal "
                   "= minimal, Kiefer Prop. 3.4/3.5): no early exit when the first step does not shrink the automaton; WFSA.min "
                   "delegates to it", "minimisation applies both conjugations")
    f = P.func("wfsa/field_wfsa.py::Simple.min")
    r.looked_at(f)
    rets = _returns(f)
    ok = len(rets) == 1 and W.cnorm(f.node, rets[0].value, rets[0]) == "self.forward_conjugate().backward_conjugate()"
    r.add(f, rets[0] if len(rets) == 1 else f.node, ok, "" if ok else f"Simple.min has {len(rets)} return(s); it must be exactly "
          f"self.forward_conjugate().backward_conjugate() on every path")
    g = P.func("wfsa/field_wfsa.py::Simple.backward_conjugate")
    r.looked_at(g)
    rets = _returns(g)
    ok = len(rets) == 1 and W.cnorm(g.node, rets[0].value, rets[0]) == "self.reverse.forward_conjugate().reverse"
    r.add(g, rets[0] if rets else g.node, ok, "" if ok else "backward_conjugate must be reverse∘forward_conjugate∘reverse")
    h = P.func("wfsa/field_wfsa.py::WFSA.min")
    r.looked_at(h)
    rets = _returns(h)
    ok = len(rets) == 1 and W.cnorm(h.node, rets[0].value, rets[0]) == "self.simple.min.to_wfsa()"
    r.add(h, rets[0] if rets else h.node, ok, "" if ok else "WFSA.min must be self.simple.min.to_wfsa()")
    r.min_instances = 3
    return r


def rule_view_filter(P):
    r = RuleResult("VIEW-FILTER", "the views I / F of an automaton yield exactly the (state, weight) entries of start / stop whose weight "
                   "is not the semiring zero: every consumer (trim, reverse, rename, composition, to_cfg) relies on the views to skip "
                   "zero entries, which set_I(q, zero), cancellation and push leave in the charts", "I/F are the non-zero views")
    for name, chart in (("I", "start"), ("F", "stop")):
        f = P.func(f"wfsa/base.py::WFSA.{name}")
        r.looked_at(f)
        ys = [n for n in walk_live(f.node) if isinstance(n, ast.Yield)]
        yf = [n for n in walk_live(f.node) if isinstance(n, ast.YieldFrom)]
        rets = [n for n in walk_live(f.node) if isinstance(n, ast.Return) and n.value is not None]
        whole = [n for n in yf + rets if W.cnorm(f.node, n.value, n) in (f"self.{chart}.items()", f"iter(self.{chart}.items())", f"list(self.{chart}.items())")]
        if whole:
            r.add(f, whole[0], False, f"view {name} hands out every entry of self.{chart} unfiltered: zero-weight entries (set_{name}(q, zero), cancellation "
                  f"a + (-a), push) are then treated as {'initial' if name == 'I' else 'final'} states by trim/reverse/rename/composition")
            continue
        if len(ys) != 1:
            r.undecided(f, f.node, f"view {name}: expected a single yield")
            continue
        y = ys[0]
        lp = next((a for a in ancestors(y) if isinstance(a, ast.For)), None)
        facts = W.cfacts(f.node, y)
        w = norm(lp.target.elts[1]) if lp is not None and isinstance(lp.target, ast.Tuple) else None
        qv = norm(lp.target.elts[0]) if lp is not None and isinstance(lp.target, ast.Tuple) else None
        cands = {f"self.R.zero != {w}", f"{w} != self.R.zero", f"self.R.zero != self.{chart}[{qv}]", f"self.{chart}[{qv}] != self.R.zero"}
        ok = lp is not None and W.citer(f.node, lp) == f"self.{chart}.items()" and w is not None and bool(cands & facts)
        r.add(f, y, ok, "" if ok else f"view {name} does not filter `!= self.R.zero` over self.{chart}.items()", slots=dict(facts=sorted(facts)))
    r.min_instances = 2
    return r


def rule_fromstrings(P):
    r = RuleResult("FACTOR-FROMSTRINGS", "from_string / from_strings name the state reached after reading a prefix by that prefix "
                   "(xs[:i] → xs[:i+1]): this is what lets from_strings overlay several strings as a trie; naming states by position "
                   "merges position i of every string", "string automata are tries over prefixes")
    for name in ("from_string", "from_strings"):
        f = P.func(f"wfsa/base.py::WFSA.{name}")
        r.looked_at(f)
        arcs = [n for n in walk_live(f.node) if isinstance(n, ast.Call) and W.call_name(n) in ("add_arc", "set_arc")]
        if len(arcs) != 1:
            r.undecided(f, f.node, f"{name}: expected one arc site")
            continue
        c = arcs[0]
        lp = next((a for a in ancestors(c) if isinstance(a, ast.For) and "range" in norm(a.iter)), None)
        if lp is None:
            r.undecided(f, c, f"{name}: position loop not found")
            continue
        i = norm(lp.target)
        xs = norm(lp.iter).replace("range(len(", "").rstrip(")")
        a0, a1, a2 = (W.cnorm(f.node, x, c) for x in c.args[:3])
        ok = a0 == f"{xs}[:{i}]" and a1 == f"{xs}[{i}]" and a2 == f"{xs}[:{i} + 1]"
        r.add(f, c, ok, "" if ok else f"`{first_line(c)}`: states must be the prefixes {xs}[:{i}] → {xs}[:{i} + 1]", slots=dict(src=a0, label=a1, dst=a2))
    r.min_instances = 2
    return r


def rule_trunc_finals(P):
    r = RuleResult("TRUNC-FINALS", "CFG.truncate_length intersects with the acceptor of all strings of length ≤ max_length: states 0..max_length, "
                   "an arc t → t+1 for every terminal and every t < max_length, and EVERY state final (state 0 for the empty string, state "
                   "max_length for strings of exactly the bound)", "strings of every length up to and including the bound are kept")
    f = P.func("cfg.py::CFG.truncate_length")
    r.looked_at(f)
    bound = f.params[1]
    loops = [n for n in f.node.body if isinstance(n, ast.For) and isinstance(n.iter, ast.Call) and W.call_name(n.iter) == "range" and isinstance(n.target, ast.Name)]
    finals = [c for c in walk_live(f.node) if isinstance(c, ast.Call) and W.call_name(c) == "add_F" and c.args]
    if len(loops) != 1 or not finals or len(loops[0].iter.args) != 1:
        r.undecided(f, f.node, "layer loop / add_F calls not recognised", construct="truncate_length: final states")
        return r
    lp = loops[0]
    t = lp.target.id
    rng = norm(lp.iter.args[0])
    covered = set()
    for c in finals:
        a0 = norm(c.args[0])
        inside = W._within(c, lp)
        if not inside and W.int_const(c.args[0]) == 0:
            covered.add("0")
        elif not inside and a0 == bound:
            covered.add("max")
        elif inside and not [x for x in W.cfacts(f.node, c) if t in x]:
            if a0 == t and rng == bound:
                covered.update({"0", "mid"})
            elif a0 == t and rng in (f"{bound} + 1", f"1 + {bound}"):
                covered.update({"0", "mid", "max"})
            elif a0 in (f"{t} + 1", f"1 + {t}") and rng == bound:
                covered.update({"mid", "max"})
            else:
                r.undecided(f, c, f"`{first_line(c)}` in `for {t} in range({rng})` not recognised", construct="truncate_length: final states")
                return r
        else:
            r.undecided(f, c, f"`{first_line(c)}` not recognised", construct="truncate_length: final states")
            return r
    missing = {"0", "mid", "max"} - covered
    names = {"0": "state 0 (the empty string)", "mid": "the intermediate lengths", "max": f"state {bound} (strings of exactly the bound)"}
    r.add(f, finals[0], not missing, "" if not missing else "not final: " + ", ".join(names[m] for m in sorted(missing)) + " — those strings get weight zero in the "
          "truncated grammar", slots=dict(final_states=sorted(covered)), construct="truncate_length: final states")
    arcs = [c for c in walk_live(lp) if isinstance(c, ast.Call) and W.call_name(c) == "add_arc" and len(c.args) >= 3]
    ok = len(arcs) == 1 and norm(arcs[0].args[0]) == t and norm(arcs[0].args[2]) in (f"{t} + 1", f"1 + {t}") and rng == bound
    if arcs and not ok and rng != bound:
        r.undecided(f, arcs[0], "layer arcs not recognised", construct="truncate_length: layer arcs")
    else:
        r.add(f, arcs[0] if arcs else lp, ok, "" if ok else f"layer arcs must go from {t} to {t}+1 for every {t} < {bound}", construct="truncate_length: layer arcs")
    r.min_instances = 2
    return r



# ---------------------------------------------------------------- COMPOSE-ARCS


def _neg_fact(p):
    if " == " in p:
        return p.replace(" == ", " != ", 1)
    if " != " in p:
        return p.replace(" != ", " == ", 1)
    return p[4:] if p.startswith("not ") else "not " + p


def rule_compose_arcs(P):
    r = RuleResult("COMPOSE-ARCS", "grammar ∘ transducer: every arc of the transducer is a base item of pass 1 (_compose_bottom_up_epsilon) and "
                   "a rule of pass 2 (__matmul__) — the loops over fst.arcs() emit for every arc (no label/state filter; the ε-output split "
                   "of pass 2 is a two-way partition). An arc left out by label or end points (an ε:ε self-loop, say) loses the weight of "
                   "every path through it; pass 2 enumerates bodies from pass 1's items, so the two must agree",
                   "each transducer arc contributes to the composition exactly once")
    n_sites = 0
    for q in ("cfg.py::CFG._compose_bottom_up_epsilon", "cfg.py::CFG.__matmul__"):
        f = P.func(q)
        r.looked_at(f)
        loops = [n for n in walk_live(f.node) if isinstance(n, ast.For) and isinstance(n.iter, ast.Call) and W.call_name(n.iter) == "arcs"]
        if len(loops) != 1:
            r.undecided(f, f.node, f"{len(loops)} loops over the transducer's arcs (expected 1)", construct=f"{f.name}: loop over fst.arcs()")
            continue
        lp = loops[0]
        wvar = norm(lp.target.elts[-1]) if isinstance(lp.target, ast.Tuple) and len(lp.target.elts) == 4 else None
        sites = [c for c in walk_live(lp) if isinstance(c, ast.Call) and isinstance(c.func, ast.Attribute) and c.func.attr == "add" and W._within(c, lp)]
        if not sites:
            r.undecided(f, lp, "no .add site in the loop over the arcs", construct=f"{f.name}: loop over fst.arcs()")
            continue
        fs = [frozenset(W.cfacts(f.node, c)) for c in sites]
        n_sites += len(sites)
        if any(wvar and wvar != "_" and wvar in {t.id for t in ast.walk(ast.parse(x, mode="eval")) if isinstance(t, ast.Name)} for s_ in fs for x in s_):
            r.undecided(f, lp, f"an arc is emitted depending on its weight ({sorted(map(sorted, fs))}); not a label/state filter", construct=f"{f.name}: loop over fst.arcs()")
            continue
        if len(fs) == 1:
            ok = not fs[0]
        elif len(fs) == 2 and len(fs[0]) == 1 and len(fs[1]) == 1:
            ok = _neg_fact(next(iter(fs[0]))) == next(iter(fs[1]))
        elif len(fs) == 2 and min(map(len, fs)) == 1 and _neg_fact(next(iter(min(fs, key=len)))) in max(fs, key=len):
            ok = False  # if p: emit / elif q: emit — arcs with (not p and not q) emit nothing
        else:
            common = frozenset.intersection(*fs)
            rest = [s_ - common for s_ in fs]
            if common and len(rest) <= 2 and all(len(x) <= 1 for x in rest):
                ok = False
            else:
                r.undecided(f, lp, f"guards of the emitting sites are not a recognised partition: {sorted(map(sorted, fs))}", construct=f"{f.name}: loop over fst.arcs()")
                continue
        r.add(f, sites[0], ok, "" if ok else f"arcs are emitted only under {sorted(map(sorted, fs))}: an arc failing these tests contributes nothing, "
              f"and every path of the transducer through it is lost from the composition", construct=f"{f.name}: every arc emits",
              slots=dict(guards=sorted(map(sorted, fs))))
    r.min_instances = 2
    return r
