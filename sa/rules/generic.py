"""Semiring-genericity rules: GEN-LITERAL, GEN-SUM, GEN-FIELDOP, GEN-TRUTH, GEN-DTYPE, GEN-SHADOW,
SYMCLASS, SET-NOT-ADD, MULTISET (C02, C06, C08-C12, C14, C15, and several others)."""

from __future__ import annotations

import ast
import re

from ..model import AnalysisError, norm, walk_live, parent, ancestors, first_line
from ..report import RuleResult, ModSite
from .. import walk as W_
from ..kinds import kinds_for, W, S, N, C, G, B, R, U, is_semiring_ref, SEMIRING_CLASSES

# ---- function classification (frozen, one reason per line; unlisted => generic = strict)
FLOAT_ONLY_MODULES = {
    "semiring.py": "definitions of the weight types themselves (C16's domain)",
    "parse/earley_rescaled.py": "rescaling divides by real numbers: documented as real-weights only",
    "wfsa/field_wfsa.py": "linear algebra over the reals",
    "lark_interface.py": "builds Float-weighted automata/grammars from Lark",
    "lm.py": "probabilities are Python floats",
    "util.py": "display helpers",
    "__init__.py": "re-exports",
    "wfsa/__init__.py": "re-exports",
}
FLOAT_ONLY_FUNCS = {
    "cfglm.py::locally_normalize": "divides by the partition function (C20)",
    "cfglm.py::BoolCFGLM": "maps to Boolean / Float masks",
    "parse/earley.py::EarleyLM": "normalises next-token weights",
    "parse/cky.py::CKYLM": "normalises next-token weights",
    "parse/earley.py::Earley.generate_rust_test_case": "debug printer",
    "cfg.py::CFG.expected_length": "asserts R == Float",
    "cfg.py::CFG.assert_equal": "test helper",
    "chart.py::Chart.normalize": "division: real weights",
    "chart.py::Chart.sum": "numeric helper", "chart.py::Chart.max": "numeric helper", "chart.py::Chart.min": "numeric helper",
    "chart.py::Chart.argmax": "numeric helper", "chart.py::Chart.argmin": "numeric helper", "chart.py::Chart.top": "numeric helper",
    "chart.py::Chart.sort_descending": "numeric helper", "chart.py::Chart.metric": "metric values are numbers",
    "chart.py::Chart.assert_equal": "test helper", "chart.py::Chart.compare": "test helper", "chart.py::Chart.__str__": "display",
}
FIELD_GENERIC = {
    "wfsa/base.py::WFSA.push": "weight pushing needs inverses (documented)",
    "wfsa/base.py::WFSA.determinize": "residual normalisation needs inverses",
}
DISPLAY_NAMES = {"graphviz", "_repr_html_", "_repr_svg_", "__repr__", "__str__", "to_nltk", "_repr_image_svg_xml",
                 "generate_rust_test_case"}
# weight-truthiness is also checked in these float-classified functions: they handle Boolean-weighted charts
TRUTH_ALSO = ("cfglm.py::BoolCFGLM", "parse/earley.py::EarleyLM", "parse/cky.py::CKYLM")


def classify(f):
    q = f.qual
    if f.name in DISPLAY_NAMES or (f.outer is not None and f.outer.name in DISPLAY_NAMES):
        return "display"
    if f.module.rel in FLOAT_ONLY_MODULES:
        return "float"
    for k in FLOAT_ONLY_FUNCS:
        if q == k or q.startswith(k + "."):
            return "float"
    for k in FIELD_GENERIC:
        if q == k or q.startswith(k + "."):
            return "field"
    return "generic"


def _num_const(e):
    if isinstance(e, ast.Constant) and isinstance(e.value, (int, float)) and not isinstance(e.value, bool):
        return True
    if isinstance(e, ast.UnaryOp) and isinstance(e.op, ast.USub):
        return _num_const(e.operand)
    return False


def _weight_arg(call):
    """the expression in weight position of a construction call, or None"""
    nm = W_.call_name(call)
    args = call.args
    if any(isinstance(a, ast.Starred) for a in args[:1]):
        return None
    if nm == "add" and isinstance(call.func, ast.Attribute):
        if len(args) >= 2 or (len(args) >= 1 and any(isinstance(a, ast.Starred) for a in args)):
            return args[0]
        return None
    if nm in ("add_arc", "set_arc") and len(args) >= 4:
        return args[3]
    if nm in ("add_I", "add_F", "set_I", "set_F") and len(args) >= 2:
        return args[1]
    if nm == "Rule" and args:
        return args[0]
    if nm == "lift" and len(args) >= 2:
        return args[1]
    for kw in call.keywords:
        if kw.arg == "w" and nm in ("lift", "add_arc", "from_string"):
            return kw.value
    return None


def _bool_contexts(fnode):
    """(expr, context) for every expression evaluated for truthiness"""
    for n in walk_live(fnode):
        if isinstance(n, (ast.If, ast.While)):
            yield from _split_bool(n.test, type(n).__name__.lower())
        elif isinstance(n, ast.IfExp):
            yield from _split_bool(n.test, "ifexp")
        elif isinstance(n, ast.Assert):
            yield from _split_bool(n.test, "assert")
        elif isinstance(n, ast.comprehension):
            for t in n.ifs:
                yield from _split_bool(t, "comprehension-if")
        elif isinstance(n, ast.Call) and isinstance(n.func, ast.Name) and n.func.id == "bool" and n.args:
            yield from _split_bool(n.args[0], "bool()")
        elif isinstance(n, ast.BoolOp) and not _in_test(n):
            # `x or default`
            for v in n.values[:-1]:
                yield from _split_bool(v, "or-default" if isinstance(n.op, ast.Or) else "and")


def _local_func(P, f, name):
    g = f
    while g is not None:
        q = f"{g.qual}.{name}"
        if q in P.funcs:
            return P.funcs[q]
        g = g.outer
    return None


def _in_test(n):
    p = parent(n)
    while isinstance(p, (ast.BoolOp, ast.UnaryOp)):
        n, p = p, parent(p)
    if isinstance(p, (ast.If, ast.While, ast.IfExp, ast.Assert)) and p.test is n:
        return True
    if isinstance(p, ast.comprehension) and n in p.ifs:
        return True
    return False


def _split_bool(e, ctx):
    if isinstance(e, ast.BoolOp):
        for v in e.values:
            yield from _split_bool(v, ctx)
    elif isinstance(e, ast.UnaryOp) and isinstance(e.op, ast.Not):
        yield from _split_bool(e.operand, ctx)
    else:
        yield e, ctx


def rule_generic(P, scope=None, rules=("GEN-LITERAL", "GEN-SUM", "GEN-FIELDOP", "GEN-TRUTH")):
    """scope: iterable of module rels or function-qual prefixes; None = whole package."""
    res = {
        "GEN-LITERAL": RuleResult("GEN-LITERAL", "in semiring-generic functions no numeric literal reaches a weight "
                                  "position (operand of +/* with a weight, accumulator initialiser, weight argument of "
                                  "add/add_arc/add_I/add_F/Rule/lift, comparison with a weight): constants come from R.zero/R.one",
                                  "weights are touched only through the semiring interface (all semirings)"),
        "GEN-SUM": RuleResult("GEN-SUM", "builtin sum() over weights passes start=<semiring zero> (otherwise the empty "
                              "sum is the int 0 and a non-empty one starts with 0 + w)", "empty sums are the semiring zero"),
        "GEN-FIELDOP": RuleResult("GEN-FIELDOP", "/, -, abs, <, > on weights only in float-only functions; ** only in "
                                  "field-generic ones", "no field/order operations on generic weights"),
        "GEN-TRUTH": RuleResult("GEN-TRUTH", "a weight (in generic code) or a symbol/label (anywhere) is never tested by "
                                "truthiness: zero is `== R.zero`, ε is `== EPSILON`; user semirings may have a falsy one, "
                                "Boolean(False) is truthy, the byte 0 is a falsy real symbol",
                                "zero/ε tests are explicit comparisons"),
    }
    n_funcs = 0
    for q in sorted(P.funcs):
        f = P.funcs[q]
        if scope is not None and not any(q == s or q.startswith(s) for s in scope):
            continue
        cl = classify(f)
        if cl == "display":
            continue
        K = kinds_for(P, f)
        n_funcs += 1
        for r in res.values():
            r.looked_at(f)
        generic = cl in ("generic", "field")
        # ---- GEN-TRUTH (symbols everywhere, weights in generic code)
        if "GEN-TRUTH" in rules:
            for e, ctx in _bool_contexts(f.node):
                k = K.kind(e)
                if isinstance(e, ast.Name) and any(isinstance(a, ast.Lambda) and any(p.arg == e.id for p in a.args.args)
                                                   for a in ancestors(e)):
                    k = U  # lambda parameter shadows the outer name
                wt = generic or any(q == t or q.startswith(t + ".") for t in TRUTH_ALSO)
                if k == S or (k == W and wt):
                    what = "symbol" if k == S else "weight"
                    res["GEN-TRUTH"].add(f, e, False,
                                         f"{what} `{norm(e)}` is tested by truthiness ({ctx}); "
                                         + ("a real symbol such as the byte 0 is falsy and ε is not the only falsy label"
                                            if k == S else "Boolean(False)/Real(0) objects are truthy and a user semiring's "
                                            "one may be falsy (cost/log space): compare with R.zero"),
                                         slots=dict(kind=k, context=ctx), construct=f"truthiness of {norm(e)} @ {first_line(W_.stmt_of(e))}")
                elif k in (W, S):
                    res["GEN-TRUTH"].add(f, e, True, slots=dict(kind=k, context=ctx, scope=cl))
        if not generic:
            continue
        for n in walk_live(f.node):
            # ---- GEN-LITERAL
            if "GEN-LITERAL" in rules:
                bad = None
                if isinstance(n, ast.BinOp) and isinstance(n.op, (ast.Add, ast.Mult)):
                    for a, b in ((n.left, n.right), (n.right, n.left)):
                        if _num_const(a) and K.kind(b) == W:
                            bad = (n, f"literal `{norm(a)}` combined with weight `{norm(b)}`")
                elif isinstance(n, ast.AugAssign) and isinstance(n.op, (ast.Add, ast.Mult)) and _num_const(n.value):
                    tk = K.kind(n.target)
                    if tk == W:
                        bad = (n, f"literal `{norm(n.value)}` accumulated into weight `{norm(n.target)}`")
                elif isinstance(n, ast.Assign) and _num_const(n.value):
                    for t in n.targets:
                        if K.kind(t) == W:
                            bad = (n, f"weight `{norm(t)}` initialised with the literal `{norm(n.value)}`")
                elif isinstance(n, ast.Compare) and len(n.ops) == 1 and isinstance(n.ops[0], (ast.Eq, ast.NotEq)):
                    for a, b in ((n.left, n.comparators[0]), (n.comparators[0], n.left)):
                        if _num_const(a) and K.kind(b) == W:
                            bad = (n, f"weight `{norm(b)}` compared with the literal `{norm(a)}`")
                elif isinstance(n, ast.Call) and isinstance(n.func, ast.Name) and _local_func(P, f, n.func.id) is not None:
                    g = _local_func(P, f, n.func.id)
                    Kg = kinds_for(P, g)
                    for i, a in enumerate(n.args):
                        if i < len(g.params) and Kg.env.get(g.params[i]) == W and not isinstance(a, ast.Starred):
                            ok = not _num_const(a)
                            res["GEN-LITERAL"].add(f, n, ok, "" if ok else f"literal `{norm(a)}` passed as the weight argument of `{g.name}`",
                                                   slots=dict(weight=norm(a)))
                elif isinstance(n, ast.Call):
                    wa = _weight_arg(n)
                    if wa is not None:
                        ok = not _num_const(wa)
                        res["GEN-LITERAL"].add(f, n, ok,
                                               "" if ok else f"literal `{norm(wa)}` passed as the weight of `{W_.call_name(n)}`: "
                                                             f"not an element of the semiring unless R is Float",
                                               slots=dict(weight=norm(wa)))
                        # products inside the weight argument are covered by the BinOp case
                if bad:
                    res["GEN-LITERAL"].add(f, bad[0], False, bad[1] + ": wrong for every non-float semiring "
                                           "(TypeError or a value outside the semiring)")
            # ---- GEN-SUM
            if "GEN-SUM" in rules and isinstance(n, ast.Call) and isinstance(n.func, ast.Name) and n.func.id == "sum" and n.args:
                ek = K._gen_elem_kind(n.args[0])
                if ek == W:
                    has_start = len(n.args) >= 2 or any(kw.arg == "start" for kw in n.keywords)
                    st = n.args[1] if len(n.args) >= 2 else next((kw.value for kw in n.keywords if kw.arg == "start"), None)
                    ok = has_start and K.kind(st) == W
                    res["GEN-SUM"].add(f, n, ok,
                                       "" if ok else "sum() over semiring weights without start=R.zero: int 0 for an empty "
                                                     "sequence and `0 + w` (TypeError over Real/Boolean/...) otherwise",
                                       slots=dict(start=norm(st) if st is not None else None),
                                       witness="Earley(cfg)(()) over Real: TypeError / int 0; WFSA.lift('a', Real(3), R=Real)"
                                               ".total_weight(): TypeError (DESIGN §5 D6)" if not ok else None)
            # ---- GEN-FIELDOP
            if "GEN-FIELDOP" in rules:
                if isinstance(n, ast.BinOp) and isinstance(n.op, (ast.Div, ast.Sub, ast.FloorDiv, ast.Mod)) \
                        and W in (K.kind(n.left), K.kind(n.right)):
                    res["GEN-FIELDOP"].add(f, n, False, f"`{norm(n)}` uses {type(n.op).__name__} on a weight in generic code")
                elif isinstance(n, ast.BinOp) and isinstance(n.op, ast.Pow) and K.kind(n.left) == W:
                    ok = cl == "field"
                    res["GEN-FIELDOP"].add(f, n, ok, "" if ok else f"`{norm(n)}`: inversion outside the field-generic functions",
                                           slots=dict(scope=cl))
                elif isinstance(n, ast.Compare) and any(isinstance(o, (ast.Lt, ast.Gt, ast.LtE, ast.GtE)) for o in n.ops) \
                        and W in [K.kind(x) for x in [n.left] + n.comparators]:
                    res["GEN-FIELDOP"].add(f, n, False, f"`{norm(n)}` orders weights in generic code")
                elif isinstance(n, ast.Call) and isinstance(n.func, ast.Name) and n.func.id in ("abs", "float", "int") \
                        and n.args and K.kind(n.args[0]) == W:
                    res["GEN-FIELDOP"].add(f, n, False, f"`{norm(n)}` treats a weight as a number in generic code")
                elif isinstance(n, ast.UnaryOp) and isinstance(n.op, ast.USub) and K.kind(n.operand) == W \
                        and not _num_const(n):
                    res["GEN-FIELDOP"].add(f, n, False, f"`{norm(n)}` negates a weight in generic code")
    for r in res.values():
        r.note(f"{n_funcs} functions analysed (display helpers skipped; float-only functions exempt from the weight rules)")
    return [res[k] for k in rules]


# ---------------------------------------------------------------- positive examples for zero-count rules
POSITIVE = '''
class CFGX:
    def agenda(self):
        total = 0
        for r in self.rules:
            total += r.w
        x = sum(r.w for r in self.rules)
        if r.w / self.R.one > r.w:
            pass
        if not r.w:
            pass
        for i, a, j, w in self.arcs():
            if not a:
                self.add(1, i, j)
        return total
'''


def selfcheck_positive():
    """The zero-count rules must fire on a tiny synthetic example (run by --selfcheck and by every GEN run)."""
    import tempfile, os, shutil
    from ..model import Program, PKG_REL

    tmp = tempfile.mkdtemp(prefix="sa-pos-")
    try:
        d = os.path.join(tmp, PKG_REL)
        os.makedirs(d)
        with open(os.path.join(d, "pos.py"), "w") as f:
            f.write(POSITIVE)
        P = Program(tmp)
        rs = rule_generic(P)
        got = {r.rule: sum(1 for o in r.obs if not o.ok) for r in rs}
        want = {"GEN-LITERAL": 2, "GEN-SUM": 1, "GEN-FIELDOP": 2, "GEN-TRUTH": 2}
        for k, v in want.items():
            if got.get(k, 0) < v:
                raise AnalysisError(f"positive example: rule {k} fired {got.get(k, 0)} times, expected >= {v}")
        return got
    finally:
        shutil.rmtree(tmp, ignore_errors=True)


# ---------------------------------------------------------------- GEN-DTYPE


def rule_dtype(P):
    r = RuleResult("GEN-DTYPE", "numpy array constructors filled with a semiring constant give an explicit floating "
                   "dtype (Float.zero/one are the Python ints 0/1, so np.full(n, R.zero) is an int64 array and `+=` "
                   "truncates fractional weights)", "dense weight arrays are float-typed")
    f = P.func("wfsa/field_wfsa.py::WFSA.simple")
    r.looked_at(f)
    K = kinds_for(P, f)
    for n in walk_live(f.node):
        if isinstance(n, ast.Call) and isinstance(n.func, ast.Attribute) and n.func.attr in ("full", "zeros", "ones", "empty", "array", "full_like") \
                and isinstance(n.func.value, ast.Name) and n.func.value.id in ("np", "numpy"):
            dt = next((kw.value for kw in n.keywords if kw.arg == "dtype"), None)
            fill = n.args[1] if n.func.attr == "full" and len(n.args) >= 2 else next((kw.value for kw in n.keywords if kw.arg == "fill_value"), None)
            ok = True
            msg = ""
            if n.func.attr == "full":
                if dt is None:
                    ok = fill is not None and isinstance(fill, ast.Constant) and isinstance(fill.value, float)
                else:
                    ok = _float_dtype(dt)
            elif n.func.attr in ("zeros", "ones", "empty"):
                ok = dt is None or _float_dtype(dt)  # numpy default is float64
            if not ok:
                msg = (f"`{norm(n)}`: dtype is inferred from the fill value `{norm(fill) if fill is not None else '?'}` "
                       f"(the int 0 for Float) or given as a non-float type; fractional weights added later are truncated")
            r.add(f, n, ok, msg, slots=dict(dtype=norm(dt) if dt is not None else None, fill=norm(fill) if fill is not None else None),
                  witness="WFSA.lift('a',.3) == WFSA.lift('a',.4) is True; simple.start.dtype == int64 (DESIGN §5 D2)" if not ok else None)
    r.min_instances = 3
    return r


def _float_dtype(e):
    s = norm(e)
    return s in ("float", "np.float64", "np.float32", "numpy.float64", "'float'", "'float64'", "np.double", "object",
                 "np.longdouble", "np.float128", "complex")


# ---------------------------------------------------------------- GEN-SHADOW


def rule_shadow(P):
    r = RuleResult("GEN-SHADOW", "a subclass (or a module-level patch of it) must not replace a member whose base "
                   "definition depends on the instance's semiring (`self.R`) by a constant bound to one concrete semiring",
                   "exported zero/one automata follow the operand's semiring")
    for c in P.classes.values():
        for name, (val, st) in c.patches.items():
            # base definition through the MRO (excluding c's own patch)
            base_def = None
            for b in c.mro():
                if name in b.methods:
                    base_def = b.methods[name]
                    break
            if base_def is None:
                continue
            dep = any(isinstance(x, ast.Attribute) and x.attr == "R" and isinstance(x.value, ast.Name) and x.value.id == "self"
                      for x in ast.walk(base_def.node))
            if not dep:
                continue
            site = ModSite(c.module)
            r.looked_at(base_def)
            if _descriptor_ok(P, c, name, val):
                r.add(site, st, True, slots=dict(member=name, base=base_def.qual, value=norm(val),
                                                 idiom="class-level constant, instance access delegates to the base definition"),
                      construct=f"{c.name}.{name} = {first_line(val)}")
                continue
            r.add(site, st, False,
                  f"`{norm(st)}` replaces {base_def.qual} (which builds the value from self.R) by one instance bound to a "
                  f"concrete semiring; `A.star()` = `self.one + ...` then mixes that semiring with A's",
                  slots=dict(member=name, base=base_def.qual, value=norm(val)), construct=f"{c.name}.{name} = {first_line(val)}",
                  witness="WFSA.lift('a', Real(.5), R=Real).star()('a') raises TypeError with the exported WFSA; "
                          "wfsa.base.WFSA gives 0.5 (DESIGN §5 D9)")
    # every other class-level override of one/zero must itself depend on self.R
    for c in P.classes.values():
        for name in ("one", "zero"):
            if name in c.methods and c.bases:
                m = c.methods[name]
                dep = any(isinstance(x, ast.Attribute) and x.attr == "R" for x in ast.walk(m.node))
                r.add(m, m.node, dep, "" if dep else f"{m.qual} ignores self.R", construct=f"def {name} in {c.name}")
    base = P.cls("wfsa/base.py", "WFSA")
    for name in ("one", "zero"):
        m = base.methods.get(name)
        if m is None:
            raise AnalysisError(f"wfsa/base.py::WFSA.{name} not found")
        dep = any(isinstance(x, ast.Attribute) and x.attr == "R" for x in ast.walk(m.node))
        r.add(m, m.node, dep, "" if dep else f"{m.qual} does not build its value from self.R", construct=f"def {name} in WFSA (base)")
    r.min_instances = 2
    return r


def _descriptor_ok(P, c, name, val):
    """`C.name = Desc(<constant>, <Base>.name)` where Desc.__get__ returns the constant only for class access and
    delegates instance access to the base definition (which depends on self.R)."""
    if not (isinstance(val, ast.Call) and isinstance(val.func, ast.Name)):
        return False
    rr = P.resolve_name(c.module, val.func.id)
    if not rr or rr[0] != "class":
        return False
    d = rr[1]
    get = d.methods.get("__get__")
    init = d.methods.get("__init__")
    if get is None or init is None or len(get.params) < 2:
        return False
    obj = get.params[1]
    # which constructor argument is used for instance access?
    inst_attr = None
    for n in walk_live(get.node):
        if isinstance(n, ast.Return) and n.value is not None:
            v = n.value
            branches = []
            if isinstance(v, ast.IfExp):
                cmpn = W_.cmp_parts(v.test)
                if cmpn and W_.is_name(cmpn[0], obj) and isinstance(cmpn[2], ast.Constant) and cmpn[2].value is None:
                    branches.append(v.orelse if isinstance(cmpn[1], ast.Is) else v.body)
            else:
                facts = W_.guard_facts(n)
                if any((cc := W_.fact_cmp(ft)) and W_.is_name(cc[0], obj) and cc[1] is ast.IsNot for ft in facts):
                    branches.append(v)
            for b in branches:
                for x in ast.walk(b):
                    if isinstance(x, ast.Call) and any(W_.is_name(a, obj) for a in x.args):
                        for y in ast.walk(x.func):
                            if isinstance(y, ast.Attribute) and W_.is_name(y.value, get.params[0]):
                                inst_attr = y.attr
    if inst_attr is None:
        return False
    # constructor parameter stored in that attribute
    pidx = None
    for n in walk_live(init.node):
        if isinstance(n, ast.Assign) and isinstance(n.targets[0], ast.Attribute) and n.targets[0].attr == inst_attr \
                and isinstance(n.value, ast.Name) and n.value.id in init.params:
            pidx = init.params.index(n.value.id) - 1
    if pidx is None or pidx >= len(val.args):
        return False
    arg = val.args[pidx]
    if not (isinstance(arg, ast.Attribute) and arg.attr == name):
        return False
    bc = P.resolve_expr_class(c.module, arg.value)
    return bc is not None and bc.key != c.key and any(k.key == bc.key for k in c.mro())


# ---------------------------------------------------------------- SYMCLASS


def rule_symclass(P, scope=("cfg.py", "cfglm.py", "parse/")):
    r = RuleResult("SYMCLASS", "a body symbol is classified as terminal/nonterminal only through membership in the "
                   "vocabulary (is_terminal / is_nonterminal / `in V`): `x in self.N` is not a classification, because N "
                   "holds only the start symbol and the heads of the rules added so far (a nonterminal without rules is "
                   "still a nonterminal, of weight zero)", "symbol classification is by the vocabulary")
    n = 0
    for q in sorted(P.funcs):
        f = P.funcs[q]
        if not any(q.startswith(s) for s in scope) or classify(f) == "display":
            continue
        K = kinds_for(P, f)
        for nd in walk_live(f.node):
            if isinstance(nd, ast.Compare) and len(nd.ops) == 1 and isinstance(nd.ops[0], (ast.In, ast.NotIn)):
                rhs = nd.comparators[0]
                if isinstance(rhs, ast.Attribute) and rhs.attr == "N":
                    lhs = nd.left
                    k = K.kind(lhs)
                    body_sym = k == S and _from_body(f, lhs)
                    if not body_sym and isinstance(lhs, ast.Name) and f.outer is not None and lhs.id in f.params:
                        # a parameter of a nested helper: judged by what the enclosing function passes for it
                        idx = f.params.index(lhs.id)
                        Ko = kinds_for(P, f.outer)
                        for c in walk_live(f.outer.node, into_nested=True):
                            if isinstance(c, ast.Call) and isinstance(c.func, ast.Name) and c.func.id == f.name and len(c.args) > idx:
                                a_ = c.args[idx]
                                if W_.enclosing_function(c) is f.outer.node and Ko.kind(a_) == S and _from_body(f.outer, a_):
                                    body_sym = True
                    n += 1
                    r.looked_at(f)
                    r.add(f, nd, not body_sym,
                          "" if not body_sym else
                          f"`{norm(nd)}` classifies the body symbol `{norm(lhs)}` by membership in N: a nonterminal that has no "
                          f"rules (or is only defined later) is treated as a terminal / as weight one",
                          slots=dict(symbol=norm(lhs), from_rule_body=bool(body_sym)))
    r.min_instances = 1
    return r


def _from_body(f, e):
    """does the symbol expression come from a rule body (r.body[k], loop var over r.body)?"""
    s = norm(e)
    if ".body" in s:
        return True
    if isinstance(e, ast.Name):
        for n in walk_live(f.node):
            if isinstance(n, (ast.For, ast.comprehension)):
                if any(isinstance(t, ast.Name) and t.id == e.id for t in ast.walk(n.target)) and ".body" in norm(n.iter):
                    return True
    return False


# ---------------------------------------------------------------- SET-NOT-ADD

SET_ALLOWED = {
    "wfsa/base.py::WFSA.from_strings": "union of strings as a set: shared prefixes must not accumulate (idempotent by design)",
    "fst.py::FST.set_arc": "forwards to the base implementation",
}


def rule_set_not_add(P):
    r = RuleResult("SET-NOT-ADD", "result machines are populated with the accumulating API (add_arc/add_I/add_F): parallel "
                   "contributions to the same (source, label, target) must sum; set_arc/set_I/set_F overwrite and are "
                   "allowed only in the frozen table (from_strings)", "parallel paths sum, they do not overwrite")
    n = 0
    for q in sorted(P.funcs):
        f = P.funcs[q]
        for nd in walk_live(f.node):
            if isinstance(nd, ast.Call) and isinstance(nd.func, ast.Attribute) and nd.func.attr in ("set_arc", "set_I", "set_F", "add_arc", "add_I", "add_F"):
                if isinstance(nd.func.value, ast.Call) and W_.call_name(nd.func.value) == "super":
                    continue
                n += 1
                if nd.func.attr.startswith("set_"):
                    ok = q in SET_ALLOWED
                    r.looked_at(f)
                    r.add(f, nd, ok, "" if ok else f"`{first_line(nd)}` overwrites the weight: when two contributions reach the same "
                          f"arc/state (different intermediate symbols, parallel arcs, merged states) all but the last are lost",
                          slots=dict(api=nd.func.attr, allowed_because=SET_ALLOWED.get(q)))
                else:
                    r.add(f, nd, True, slots=dict(api=nd.func.attr), nontrivial=True)
    # direct writes to delta/start/stop outside the builder API
    r.min_instances = 60
    return r


# ---------------------------------------------------------------- MULTISET


def rule_multiset(P, scope=("cfg.py", "cfglm.py")):
    r = RuleResult("MULTISET", "a grammar is a multiset of rules: a loop that copies / expands rules into a result iterates the "
                   "rule list itself, never a set()/dict.fromkeys()/frozenset() of it (equal rules would collapse and their "
                   "weight be lost), and skips rules by position or identity, not by equality",
                   "duplicate rules keep their multiplicity")
    n = 0
    for q in sorted(P.funcs):
        f = P.funcs[q]
        if not any(q.startswith(s) for s in scope) or classify(f) == "display" or f.name in ("assert_equal",):
            continue
        K = kinds_for(P, f)
        for nd in walk_live(f.node):
            if isinstance(nd, (ast.For, ast.comprehension)):
                it = nd.iter
                if _iterates_rules(f, it, K):
                    n += 1
                    r.looked_at(f)
                    dd = _dedupes(it)
                    # only loops that feed a builder matter
                    feeds = isinstance(nd, ast.For) and any(isinstance(x, ast.Call) and W_.call_name(x) in ("add", "append", "extend")
                                                           for x in ast.walk(nd))
                    r.add(f, it, not (dd and feeds),
                          "" if not (dd and feeds) else
                          f"rules are iterated through `{dd}`: two equal rules (same weight, head, body) collapse into one and "
                          f"the weight of the duplicate is lost in the result", slots=dict(iter=norm(it), dedupe=dd, feeds_builder=feeds))
            if isinstance(nd, ast.Compare) and len(nd.ops) == 1 and isinstance(nd.ops[0], (ast.Eq, ast.NotEq)):
                a, b = nd.left, nd.comparators[0]
                if K.kind(a) == R and K.kind(b) == R or (_is_rule_expr(f, a, K) and _is_rule_expr(f, b, K)):
                    r.looked_at(f)
                    r.add(f, nd, False, f"`{norm(nd)}` selects rules by equality: every rule equal to the chosen one is affected, "
                          f"not only the one at the chosen position", slots=dict(compare=norm(nd)))
            # list.remove / list.index / `in` on a rule list select by equality too (the first equal rule, not the chosen one)
            if isinstance(nd, ast.Call) and isinstance(nd.func, ast.Attribute) and nd.func.attr in ("remove", "index", "count") and len(nd.args) == 1:
                recv = nd.func.value
                rv = recv
                if isinstance(recv, ast.Name):
                    d = W_.single_def(f.node, recv.id)
                    rv = d if d is not None else recv
                if isinstance(rv, ast.Call) and W_.call_name(rv) in ("list", "tuple", "sorted") and rv.args:
                    rv = rv.args[0]
                if _iterates_rules(f, rv, K) or norm(rv).endswith(".rules"):
                    r.looked_at(f)
                    r.add(f, nd, False, f"`{norm(nd)}` picks a rule out of the rule list by equality: with parallel rules (same head and body) the first "
                          f"equal one is taken, not the one at the chosen position", slots=dict(call=norm(nd)))
    # Rule equality itself distinguishes parallel rules with different weights
    rc = P.classes.get(("cfg.py", "Rule"))
    if rc is not None and "__eq__" in rc.methods:
        eq = rc.methods["__eq__"]
        r.looked_at(eq)
        txt = norm(eq.node)
        compared = {a for a in ("w", "head", "body") if re.search(rf"\bself\.{a} == other\.{a}\b|\bother\.{a} == self\.{a}\b", txt)}
        ok = compared == {"w", "head", "body"}
        r.add(eq, eq.node, ok, "" if ok else f"Rule.__eq__ compares {sorted(compared)} only: rules that differ in {sorted({'w', 'head', 'body'} - compared)} are equal, so "
              f"`rules.remove(r)`, `r in rules`, set()/dict keys confuse parallel rules of different weight", construct="Rule.__eq__ compares w, head, body")
    r.min_instances = 20
    return r


def _dedupes(it):
    for x in ast.walk(it):
        if isinstance(x, ast.Call):
            nm = W_.call_name(x)
            if nm in ("set", "frozenset"):
                return f"{nm}(...)"
            if nm == "fromkeys":
                return "dict.fromkeys(...)"
            if nm in ("Counter", "unique", "OrderedDict"):
                return f"{nm}(...)"
        if isinstance(x, (ast.SetComp,)):
            return "set comprehension"
    return None


def _is_rule_expr(f, e, K):
    if K.kind(e) == R:
        return True
    if isinstance(e, ast.Subscript) and isinstance(e.value, ast.Attribute) and e.value.attr == "rules":
        return True
    if isinstance(e, ast.Name):
        d = W_.single_def(f.node, e.id)
        if d is not None and isinstance(d, ast.Subscript) and isinstance(d.value, ast.Attribute) and d.value.attr == "rules":
            return True
    return False


def _iterates_rules(f, it, K):
    for x in ast.walk(it):
        if isinstance(x, ast.Name) and x.id == "self" and f.cls is not None and f.cls.name == "CFG" and not isinstance(parent(x), ast.Attribute):
            return True
        if isinstance(x, ast.Attribute) and x.attr == "rules":
            return True
        if isinstance(x, ast.Name) and not isinstance(parent(x), ast.Attribute):
            if x.id == "cfg":
                return True
            d = W_.single_def(f.node, x.id)
            if d is not None and any(isinstance(y, ast.Call) and W_.call_name(y) == "Rule" for y in ast.walk(d)):
                return True
    return False


# ---------------------------------------------------------------- FIELD-API

WFSA_FIELDS = {"start", "stop", "delta", "states", "alphabet"}
FIELD_WRITERS = {"wfsa/base.py::WFSA.__init__", "wfsa/base.py::WFSA.add_state", "wfsa/base.py::WFSA.add_arc", "wfsa/base.py::WFSA.add_I",
                 "wfsa/base.py::WFSA.add_F", "wfsa/base.py::WFSA.set_arc", "wfsa/base.py::WFSA.set_I", "wfsa/base.py::WFSA.set_F",
                 "wfsa/field_wfsa.py::Simple.__init__"}


def rule_field_api(P):
    r = RuleResult("FIELD-API", "the representation fields of an automaton (start, stop, delta, states, alphabet) are written only by "
                   "its constructor and the construction API, which keep `states` ⊇ every state mentioned by start/stop/delta; assigning "
                   "the fields directly leaves states unregistered (epsremove, trim and renumber iterate `states`)",
                   "automata are built through the construction API")
    n = 0
    for q in sorted(P.funcs):
        f = P.funcs[q]
        if not (f.module.rel.startswith("wfsa/") or f.module.rel in ("fst.py", "cfg.py", "lark_interface.py")):
            continue
        for nd in walk_live(f.node):
            tgts = []
            if isinstance(nd, ast.Assign):
                tgts = nd.targets
            elif isinstance(nd, (ast.AugAssign, ast.AnnAssign)):
                tgts = [nd.target]
            for t in tgts:
                for x in ([t] if not isinstance(t, (ast.Tuple, ast.List)) else t.elts):
                    base = x
                    while isinstance(base, ast.Subscript):
                        base = base.value
                    if isinstance(base, ast.Attribute) and base.attr in WFSA_FIELDS:
                        n += 1
                        ok = q in FIELD_WRITERS
                        r.looked_at(f)
                        r.add(f, nd, ok, "" if ok else f"`{first_line(nd)}` writes the field `{base.attr}` directly: the state set / alphabet "
                              f"bookkeeping of add_I/add_F/add_arc is bypassed (an arc-less initial+final state disappears from `states`, "
                              f"and ε-removal or trimming then drops its weight)", slots=dict(field=base.attr))
        for nd in walk_live(f.node):
            if isinstance(nd, ast.Call) and isinstance(nd.func, ast.Attribute) and nd.func.attr in ("update", "clear", "pop", "popitem", "setdefault", "add", "remove", "discard", "copy_from"):
                base = nd.func.value
                while isinstance(base, ast.Subscript):
                    base = base.value
                if isinstance(base, ast.Attribute) and base.attr in WFSA_FIELDS and not (isinstance(base.value, ast.Name) and base.value.id in ("self",) and q in FIELD_WRITERS):
                    if q in FIELD_WRITERS:
                        continue
                    # reads such as self.start.copy() are not in the list above; A.add / B.add of FST alphabets are other fields
                    ok = False
                    r.looked_at(f)
                    r.add(f, nd, ok, f"`{first_line(nd)}` mutates the field `{base.attr}` directly (outside the construction API): rows/charts are shared or states left unregistered",
                          slots=dict(field=base.attr))
    r.min_instances = 8
    return r


# ---------------------------------------------------------------- SYM-UNION


def rule_sym_union(P):
    r = RuleResult("SYM-UNION", "Simple.counterexample explores the union of both automata's alphabets (a symbol used by only one of them "
                   "still distinguishes them) and treats a missing transition matrix as zero", "equivalence search covers both alphabets")
    f = P.func("wfsa/field_wfsa.py::Simple.counterexample")
    r.looked_at(f)
    o = f.params[1]
    loops = [n for n in walk_live(f.node) if isinstance(n, ast.For) and W_.enclosing_loops(n)]
    if not loops:
        raise AnalysisError("Simple.counterexample: symbol loop not found")
    lp = loops[0]
    it = W_.deref(f.node, lp.iter)
    txt = norm(it)
    ok = "self.arcs" in txt and f"{o}.arcs" in txt and any(isinstance(x, ast.BinOp) and isinstance(x.op, ast.BitOr) or (isinstance(x, ast.Call) and W_.call_name(x) == "union")
                                                          for x in ast.walk(it))
    r.add(f, lp, ok, "" if ok else f"the symbol loop iterates `{txt}`: symbols used only by the other automaton are never explored, so two "
          f"automata that differ only on strings containing such a symbol are reported equivalent (and == becomes asymmetric)", slots=dict(iterates=txt))
    r.min_instances = 1
    return r


# ---------------------------------------------------------------- GEN-ONESHOT


def _generator_members(P):
    """names of methods/properties that are generator functions (contain `yield`), per class name"""
    gens = set()
    for f in P.funcs.values():
        if f.cls is not None and f.outer is None and any(isinstance(n, (ast.Yield, ast.YieldFrom)) for n in walk_live(f.node)):
            gens.add((f.name, f.is_property))
    return gens


def rule_oneshot(P, scope=None):
    r = RuleResult("GEN-ONESHOT", "a value that can be iterated only once (the generator properties I / F, calls of generator methods such "
                   "as arcs(), generator expressions, zip/map/filter objects) is not bound to a name and then iterated inside a loop that "
                   "does not re-create it: the second pass of the outer loop finds it exhausted (only the first initial state / arc is "
                   "combined)", "one-shot iterators are not re-used across loop iterations")
    gens = _generator_members(P)
    gprops = {n for n, isprop in gens if isprop}
    gmeths = {n for n, isprop in gens if not isprop}
    n_sites = 0
    for q in sorted(P.funcs):
        f = P.funcs[q]
        if scope is not None and not any(q.startswith(s) for s in scope):
            continue
        if classify(f) == "display":
            continue
        cands = []
        for nd0 in walk_live(f.node):
            if isinstance(nd0, ast.Assign):
                for t in nd0.targets:
                    for x in ([t] if isinstance(t, ast.Name) else (t.elts if isinstance(t, (ast.Tuple, ast.List)) else [])):
                        if isinstance(x, ast.Name):
                            asg = W_.assignments_to(f.node, x.id)
                            if len(asg) == 1 and asg[0][1] is not None and asg[0][0] is nd0:
                                cands.append((nd0, x.id, asg[0][1]))
        for nd, name, v in cands:
            kind = None
            if isinstance(v, ast.Attribute) and v.attr in gprops and v.attr in ("I", "F"):
                kind = f"generator property .{v.attr}"
            elif isinstance(v, ast.Call) and isinstance(v.func, ast.Attribute) and v.func.attr in gmeths and v.func.attr in ("arcs", "derivations", "_derivations_list", "_find_invalid_cnf_rule"):
                kind = f"generator method .{v.func.attr}()"
            elif isinstance(v, ast.GeneratorExp):
                kind = "generator expression"
            elif isinstance(v, ast.Call) and isinstance(v.func, ast.Name) and v.func.id in ("zip", "map", "filter", "iter", "reversed", "enumerate"):
                kind = f"{v.func.id}(...) iterator"
            if kind is None:
                continue
            n_sites += 1
            r.looked_at(f)
            # uses as an iterable
            bad = None
            uses = 0
            for u in walk_live(f.node):
                it = None
                if isinstance(u, (ast.For, ast.AsyncFor)) and W_.is_name(u.iter, name):
                    it = u
                elif isinstance(u, ast.comprehension) and W_.is_name(u.iter, name):
                    it = u
                if it is None:
                    continue
                uses += 1
                outer_loops = [a for a in ancestors(it) if isinstance(a, (ast.For, ast.While, ast.AsyncFor, ast.comprehension)) and not W_._within(nd, a)]
                # a comprehension generator that is not the first one is itself re-run for every outer element
                if isinstance(it, ast.comprehension):
                    comp = parent(it)
                    if comp is not None and comp.generators.index(it) > 0:
                        outer_loops.append(comp)
                if outer_loops:
                    bad = it
            if uses > 1 and bad is None:
                bad = nd
            r.add(f, nd, bad is None, "" if bad is None else
                  f"`{name}` holds a {kind}; it is iterated again for every element of an enclosing loop (line {getattr(bad, 'lineno', nd.lineno)}) "
                  f"but is exhausted after the first pass: only the first outer element is combined with its items",
                  slots=dict(kind=kind, name=name))
    r.note(f"{n_sites} one-shot iterators bound to names")
    return r


# ---------------------------------------------------------------- WORKLIST-MARK


def rule_worklist_mark(P, scope=None):
    r = RuleResult("WORKLIST-MARK", "a worklist search (`while stack: x = stack.pop()` whose pushes are guarded by `y not in visited`) marks "
                   "every element visited when it is put on the worklist - seeds included (`visited.add(x)` next to `stack.append(x)`, or "
                   "`visited = set(stack)` after the seeds): an unmarked seed is expanded again when the search returns to it (its "
                   "accumulated `+=` arcs double) and is missing from a result that is the visited set", "each state is expanded once")
    n = 0
    for q in sorted(P.funcs):
        f = P.funcs[q]
        if scope is not None and not any(q.startswith(s) for s in scope):
            continue
        for wl in [x for x in walk_live(f.node) if isinstance(x, ast.While) and isinstance(x.test, ast.Name)]:
            stack = wl.test.id
            if not any(isinstance(c, ast.Call) and isinstance(c.func, ast.Attribute) and c.func.attr == "pop" and W_.is_name(c.func.value, stack)
                       for c in walk_live(wl)):
                continue
            # the visited set: tested by `not in` on a guarded push inside the loop
            vis = None
            for c in walk_live(wl):
                if isinstance(c, ast.Call) and isinstance(c.func, ast.Attribute) and c.func.attr in ("append", "add") and W_.is_name(c.func.value, stack):
                    for ft in W_.guard_facts(c):
                        t = ft.test
                        # mark-on-push discipline: the guard tests the very element that is pushed (`if Q not in visited: stack.append(Q)`);
                        # agendas that de-duplicate when an item is popped follow a different, equally valid discipline and are not instances
                        if isinstance(t, ast.Compare) and len(t.ops) == 1 and isinstance(t.comparators[0], ast.Name) and W_._within(ft.origin, wl) and \
                                ((ft.pol and isinstance(t.ops[0], ast.NotIn)) or (not ft.pol and isinstance(t.ops[0], ast.In))) and c.args \
                                and norm(t.left) == norm(c.args[0]):
                            vis = t.comparators[0].id
            if vis is None or vis == stack:
                continue
            r.looked_at(f)
            n += 1
            bulk = any(isinstance(s, ast.Assign) and W_.is_name(s.targets[0], vis) and isinstance(s.value, ast.Call) and W_.call_name(s.value) in ("set", "frozenset")
                       and s.value.args and W_.is_name(s.value.args[0], stack) and W_.pos(s) < W_.pos(wl) for s in walk_live(f.node))
            # this search's pushes: inside the loop, or before it and after the previous search that used the same worklist name
            prev_end = max([W_.end_pos(o) for o in walk_live(f.node) if isinstance(o, ast.While) and o is not wl and isinstance(o.test, ast.Name)
                            and o.test.id == stack and W_.end_pos(o) < W_.pos(wl)], default=(0, 0))
            pushes = []
            for c in walk_live(f.node):
                if not isinstance(c, (ast.Call, ast.Assign)) or not (prev_end < W_.pos(c) < W_.end_pos(wl)):
                    continue
                if isinstance(c, ast.Call) and isinstance(c.func, ast.Attribute) and c.func.attr in ("append", "add", "extend", "update") and W_.is_name(c.func.value, stack) and c.args:
                    pushes.append((c, c.args[0], W_.stmt_of(c)))
                if isinstance(c, ast.Assign) and any(W_.is_name(t, stack) for t in c.targets):
                    if isinstance(c.value, (ast.List, ast.Set, ast.Tuple)):
                        for e in c.value.elts:
                            pushes.append((c, e, c))
                    elif not (isinstance(c.value, ast.Call) and not c.value.args and not c.value.keywords):
                        pushes.append((c, c.value, c))  # seeded from an expression (comprehension, list(..), set(..))
            for c, x, st in pushes:
                if bulk and W_.pos(st) < W_.pos(wl) and not W_._within(st, wl):
                    r.add(f, st, True, slots=dict(worklist=stack, visited=vis, marked=f"{vis} = set({stack})"))
                    continue
                xs = x.args[0] if isinstance(x, ast.Call) and W_.call_name(x) in ("set", "list", "tuple", "sorted", "frozenset", "deque") and len(x.args) == 1 else x
                if W_.is_name(xs, vis) and not W_._within(st, wl):
                    r.add(f, st, True, slots=dict(worklist=stack, visited=vis, marked=f"seeded from {vis} itself"))
                    continue
                same_src = [a for a in walk_live(f.node) if isinstance(a, ast.Assign) and W_.is_name(a.targets[0], vis) and isinstance(a.value, ast.Call)
                            and W_.call_name(a.value) in ("set", "frozenset") and len(a.value.args) == 1 and norm(a.value.args[0]) == norm(xs)
                            and prev_end < W_.pos(a) < W_.pos(wl)]
                if same_src and not W_._within(st, wl) and isinstance(xs, ast.Name) and len(W_.assignments_to(f.node, xs.id)) >= 1 \
                        and not any(W_.pos(same_src[0]) < W_.pos(d) < W_.pos(st) or W_.pos(st) < W_.pos(d) < W_.pos(same_src[0]) for d, _ in W_.assignments_to(f.node, xs.id)):
                    r.add(f, st, True, slots=dict(worklist=stack, visited=vis, marked=f"{vis} = set({norm(xs)}), the same seeds"))
                    continue
                blk = _block_of(st)
                xt = norm(x)
                marked = any(isinstance(s, ast.Expr) and isinstance(s.value, ast.Call) and isinstance(s.value.func, ast.Attribute) and s.value.func.attr in ("add", "update")
                             and W_.is_name(s.value.func.value, vis) and s.value.args and norm(s.value.args[0]) == xt for s in blk)
                lit = any(isinstance(s, ast.Assign) and W_.is_name(s.targets[0], vis) and isinstance(s.value, ast.Set) and any(norm(e) == xt for e in s.value.elts)
                          for s in blk)
                ok = marked or lit
                r.add(f, st, ok, "" if ok else f"`{first_line(st)}` puts `{xt}` on the worklist `{stack}` without marking it in `{vis}`: when the search "
                      f"comes back to it, it is expanded a second time (accumulated arcs double; a result built from `{vis}` misses it)",
                      slots=dict(worklist=stack, visited=vis, element=xt))
    if n < 3:
        raise AnalysisError(f"WORKLIST-MARK: {n} worklist searches found, 3 confirmed by hand (WFSA.accessible, WFSA.determinize, FST._pruned_compose)")
    r.min_instances = 5
    return r


def _block_of(st):
    p = parent(st)
    for fld in ("body", "orelse", "finalbody"):
        b = getattr(p, fld, None)
        if isinstance(b, list) and st in b:
            return b
    return [st]


# ---------------------------------------------------------------- PARAM-USED

# parameters that are accepted and deliberately not read (one line of reason each)
PARAM_UNUSED_OK = {
    ("parse/cky.py::IncrementalCKY.next_token_weights", "prefix"): "kept for callers of the old two-argument form; the length is read off the chart (D1)",
}


def _is_abstract(fnode):
    body = [s for s in fnode.body if not (isinstance(s, ast.Expr) and isinstance(s.value, ast.Constant))]
    if not body:
        return True
    if len(body) == 1 and isinstance(body[0], ast.Pass):
        return True
    if len(body) == 1 and isinstance(body[0], ast.Raise):
        return True
    return False


def rule_param_used(P, scope=None):
    r = RuleResult("PARAM-USED", "every parameter a function accepts is read by it (abstract stubs and the two tabled protocol/compatibility "
                   "parameters excepted): an option that a wrapper takes and does not hand on (`byte_cfg(charset=..)` building the grammar "
                   "for the default character set), or a default that shadows the caller's value, silently answers for a different "
                   "configuration than the one asked for", "options reach the code that implements them")
    n = 0
    for q in sorted(P.funcs):
        f = P.funcs[q]
        if scope is not None and not any(q.startswith(s) for s in scope):
            continue
        fn = f.node
        if not isinstance(fn, (ast.FunctionDef, ast.AsyncFunctionDef)) or _is_abstract(fn):
            continue
        if fn.name.startswith("__") and fn.name.endswith("__") and fn.name not in ("__init__", "__call__", "__new__"):
            continue  # the parameter list of a protocol method is dictated by the protocol
        params = [a.arg for a in fn.args.posonlyargs + fn.args.args + fn.args.kwonlyargs]
        if f.cls is not None and params and "staticmethod" not in f.decorators:
            params = params[1:]
        for a in (fn.args.vararg, fn.args.kwarg):
            if a is not None:
                params.append(a.arg)
        if not params:
            continue
        used = {x.id for x in ast.walk(fn) if isinstance(x, ast.Name) and isinstance(x.ctx, (ast.Load, ast.Del))}
        # a parameter that is re-bound before any read is not read either
        for p in params:
            n += 1
            if p.startswith("_"):
                continue
            ok = p in used
            why = ""
            if ok:
                first_load = min((W_.pos(x) for x in ast.walk(fn) if isinstance(x, ast.Name) and x.id == p and isinstance(x.ctx, ast.Load)), default=None)
                rebinds = [st for st, v in W_.assignments_to(fn, p) if isinstance(st, ast.Assign) and st in fn.body and first_load is not None
                           and W_.end_pos(st) < first_load and not any(isinstance(x, ast.Name) and x.id == p for x in ast.walk(st.value))]
                if rebinds:
                    # harmless only while every caller passes exactly the value it is overwritten with
                    idx = [a.arg for a in fn.args.posonlyargs + fn.args.args].index(p) - (1 if f.cls is not None and "staticmethod" not in f.decorators else 0) \
                        if p in [a.arg for a in fn.args.posonlyargs + fn.args.args] else None
                    sites = [c for g in P.funcs.values() for c in walk_live(g.node) if isinstance(c, ast.Call) and W_.call_name(c) == f.name
                             and isinstance(c.func, ast.Attribute)]
                    same = idx is not None and sites and all(len(c.args) > idx and norm(c.args[idx]) == norm(rebinds[0].value) for c in sites)
                    if same:
                        r.add(f, fn, True, slots=dict(parameter=p, note=f"re-bound to `{norm(rebinds[0].value)}`, which is what all {len(sites)} call sites pass"),
                              construct=f"{f.name}({p})", nontrivial=False)
                        continue
                if rebinds:
                    ok = False
                    why = f"parameter `{p}` of {f.name} is overwritten by `{first_line(rebinds[0])}` before it is ever read: the caller's value is discarded"
            elif (q, p) in PARAM_UNUSED_OK:
                r.add(f, fn, True, slots=dict(parameter=p, exempt=PARAM_UNUSED_OK[(q, p)]), construct=f"{f.name}({p})", nontrivial=False)
                continue
            else:
                why = f"parameter `{p}` of {f.name} is accepted and never read: the caller's value is silently ignored"
            r.add(f, fn, ok, why, slots=dict(parameter=p), construct=f"{f.name}({p})", nontrivial=not ok)
    if n < 100 and scope is None:
        raise AnalysisError(f"PARAM-USED: only {n} parameters found")
    r.min_instances = 10 if scope is None else 1
    return r


# ---------------------------------------------------------------- LOOP-CARRY

_LOOP_CARRY_POSITIVE = '''
def f(alphabet, arcs, V):
    u = 0 * V
    out = []
    for a in alphabet:
        if a in arcs:
            u = arcs[a] @ V
        out.append((a, u))
    return out
'''


def _loop_carry_sites(fnode):
    """(loop, if-statement, name, later use) for: default before the loop, re-assigned in the loop only under an `if` without `else`
    (new value not computed from the old one), read later in the same iteration"""
    def names_in(e):
        return {x.id for x in ast.walk(e) if isinstance(x, ast.Name)}

    out = []
    for lp in [n for n in walk_live(fnode) if isinstance(n, ast.For)]:
        for i, st in enumerate(lp.body):
            if not (isinstance(st, ast.If) and not st.orelse):
                continue
            if any(isinstance(x, (ast.Continue, ast.Break, ast.Return, ast.Raise)) for s in st.body for x in ast.walk(s)):
                continue
            assigned = {}
            for s in st.body:
                if isinstance(s, ast.Assign):
                    for t in s.targets:
                        for x in ([t] if isinstance(t, ast.Name) else (t.elts if isinstance(t, (ast.Tuple, ast.List)) else [])):
                            if isinstance(x, ast.Name) and x.id not in names_in(s.value):
                                assigned[x.id] = s
            for v, s in assigned.items():
                if not (names_in(st.test) & names_in(lp.target)):
                    continue  # the condition does not change from one iteration to the next through the loop variable
                uncond = any(isinstance(b, (ast.Assign, ast.AugAssign, ast.For, ast.With)) and v in
                             {x.id for x in ast.walk(b) if isinstance(x, ast.Name) and isinstance(x.ctx, ast.Store)} for b in lp.body[:i])
                later = [x for b in lp.body[i + 1:] for x in ast.walk(b) if isinstance(x, ast.Name) and x.id == v and isinstance(x.ctx, ast.Load)]
                pre = [d for d, _ in W_.assignments_to(fnode, v) if W_.pos(d) < W_.pos(lp) and not W_._within(d, lp)]
                redefined_after = any(isinstance(b, ast.Assign) and v in {x.id for x in ast.walk(b) if isinstance(x, ast.Name) and isinstance(x.ctx, ast.Store)}
                                      for b in lp.body[i + 1:])
                if not uncond and later and pre and not redefined_after:
                    out.append((lp, st, v, later[0]))
    return out


def rule_loop_carry(P, scope=None):
    r = RuleResult("LOOP-CARRY", "a value that is a function of the loop variable is computed afresh in every iteration: a name given a "
                   "default *before* a loop, re-assigned inside it only under an `if` on the loop variable (no `else`), and read later in "
                   "the same iteration silently keeps the previous iteration's value whenever the condition fails (the vector of symbol "
                   "a-1 reused for a symbol the automaton does not have)", "per-iteration values do not leak between iterations")
    from ..model import set_parents
    _pos = ast.parse(_LOOP_CARRY_POSITIVE)
    set_parents(_pos)
    pos = _loop_carry_sites(_pos.body[0])
    if len(pos) != 1:
        raise AnalysisError("LOOP-CARRY: the positive example is not recognised")
    n = 0
    for q in sorted(P.funcs):
        f = P.funcs[q]
        if scope is not None and not any(q.startswith(s) for s in scope):
            continue
        loops = [x for x in walk_live(f.node) if isinstance(x, ast.For) and W_.enclosing_function(x) is f.node]
        if not loops:
            continue
        n += len(loops)
        r.looked_at(f)
        for lp, st, v, use in _loop_carry_sites(f.node):
            if W_.enclosing_function(lp) is not f.node:
                continue
            r.add(f, st, False, f"`{v}` gets its default before the loop at line {lp.lineno} and is re-assigned only when `{norm(st.test)}`; the read at line "
                  f"{use.lineno} sees the value left by an earlier iteration when the test fails", slots=dict(name=v, loop=first_line(lp)))
    r.add(ModSite(next(iter(P.modules.values()))), None, True, slots=dict(loops_examined=n, positive_example="recognised"),
          construct="LOOP-CARRY: loops examined", nontrivial=False)
    if n < 50 and scope is None:
        raise AnalysisError(f"LOOP-CARRY: only {n} loops found")
    return r


# ---------------------------------------------------------------- BUILDER-BREAK

_BREAK_POSITIVE = '''
def f(cfg, Z, new):
    for r in cfg:
        if Z[r.head] == 0:
            break
        new.add(r.w, r.head, *r.body)
    return new
'''

# a `break` inside an accumulating `for` loop that is nevertheless exhaustive in effect (one line of reason each)
BREAK_OK = {
    "lm.py::LM.__call__": "the running product is zero and zero is absorbing: the remaining factors cannot change it",
}

_EMITTERS = {"add", "add_arc", "add_I", "add_F", "set_arc", "set_I", "set_F", "append", "extend", "update", "add_rule", "push", "setdefault"}


def _builder_breaks(fnode):
    """`break` statements whose nearest loop is a `for` that emits into a result (calls of add*/append/..., subscript or augmented stores)"""
    out = []
    for b in [n for n in walk_live(fnode) if isinstance(n, ast.Break)]:
        lp = next((a for a in ancestors(b) if isinstance(a, (ast.For, ast.While))), None)
        if not isinstance(lp, ast.For):
            continue
        emits = False
        for n in walk_live(lp):
            if isinstance(n, ast.Call) and isinstance(n.func, ast.Attribute) and n.func.attr in _EMITTERS:
                emits = True
            if isinstance(n, ast.AugAssign):
                emits = True
            if isinstance(n, ast.Assign) and any(isinstance(t, ast.Subscript) for t in n.targets):
                emits = True
            if isinstance(n, (ast.Yield, ast.YieldFrom)):
                emits = True
        if emits:
            out.append((b, lp))
    return out


def rule_builder_break(P, scope=None):
    r = RuleResult("BUILDER-BREAK", "a `for` loop that builds a result from every element of a collection (it emits with add*/append/+=/"
                   "subscript stores/yield) is not left with `break`: the guard that skips one unusable element (`continue`) must not "
                   "abandon the elements after it (every live rule listed after the first useless one; every state numbered after the "
                   "first dead end).  The one accumulating loop that may stop early is tabled with its reason",
                   "every element of the input is processed")
    from ..model import set_parents
    _pos = ast.parse(_BREAK_POSITIVE)
    set_parents(_pos)
    if len(_builder_breaks(_pos.body[0])) != 1:
        raise AnalysisError("BUILDER-BREAK: the positive example is not recognised")
    n = 0
    for q in sorted(P.funcs):
        f = P.funcs[q]
        if scope is not None and not any(q.startswith(s) for s in scope):
            continue
        loops = [x for x in walk_live(f.node) if isinstance(x, ast.For) and W_.enclosing_function(x) is f.node]
        if not loops:
            continue
        n += len(loops)
        r.looked_at(f)
        for b, lp in _builder_breaks(f.node):
            if W_.enclosing_function(b) is not f.node:
                continue
            if q in BREAK_OK:
                r.add(f, b, True, slots=dict(loop=first_line(lp), exempt=BREAK_OK[q]), nontrivial=False)
                continue
            facts = [W_.cfact_text(ft) if hasattr(W_, "cfact_text") else norm(ft.test) for ft in W_.guard_facts(b) if W_._within(ft.origin, lp)]
            r.add(f, b, False, f"`break` (under {facts or 'no condition'}) leaves the loop `{first_line(lp)}`, which builds its result from every element: "
                  f"the elements after this one are never processed", slots=dict(loop=first_line(lp)))
    r.add(ModSite(next(iter(P.modules.values()))), None, True, slots=dict(loops_examined=n, positive_example="recognised"),
          construct="BUILDER-BREAK: loops examined", nontrivial=False)
    if n < 50 and scope is None:
        raise AnalysisError(f"BUILDER-BREAK: only {n} loops found")
    return r


# ---------------------------------------------------------------- GEN-IDENTITY

_IDENTITY_POSITIVE = '''
def f(self, x, null_weight):
    if null_weight[x] == self.R.zero or x is self.S:
        return x
    return (x, 1)
'''
_SENTINELS = {"NotImplemented", "anything_else", "Ellipsis", "_MISSING", "MISSING", "_SENTINEL", "SENTINEL"}


def _identity_sites(fnode):
    out = []
    for n in walk_live(fnode):
        if isinstance(n, ast.Compare) and any(isinstance(o, (ast.Is, ast.IsNot)) for o in n.ops):
            sides = [n.left] + list(n.comparators)
            for (a, op, b) in zip(sides, n.ops, sides[1:]):
                if not isinstance(op, (ast.Is, ast.IsNot)):
                    continue
                def harmless(e):
                    if isinstance(e, ast.Constant) and (e.value is None or e.value is True or e.value is False or e.value is Ellipsis):
                        return True
                    if isinstance(e, ast.Name) and e.id in _SENTINELS:
                        return True
                    return False
                if harmless(a) or harmless(b):
                    continue
                # type(x) is T / cls is T compare classes, which are singletons
                if any(isinstance(e, ast.Call) and isinstance(e.func, ast.Name) and e.func.id == "type" for e in (a, b)):
                    continue
                out.append((n, a, b))
    return out


def rule_identity(P, scope=None):
    r = RuleResult("GEN-IDENTITY", "symbols, states and weights are compared with == / !=, never with `is` / `is not` (identity is used only "
                   "against None, True/False, sentinels and types; the identity short-cuts of the semiring classes are decided by SR-TABLE): "
                   "`x is self.S` is true for the interned one-letter name 'S' and false for an equal name built at run time "
                   "('Start', a tuple, an int above 256)", "equal values are treated alike however they were constructed")
    from ..model import set_parents
    _pos = ast.parse(_IDENTITY_POSITIVE)
    set_parents(_pos)
    if len(_identity_sites(_pos.body[0])) != 1:
        raise AnalysisError("GEN-IDENTITY: the positive example is not recognised")
    n = 0
    for q in sorted(P.funcs):
        f = P.funcs[q]
        if q.startswith("semiring.py::"):
            continue
        if scope is not None and not any(q.startswith(s) for s in scope):
            continue
        cmps = [x for x in walk_live(f.node) if isinstance(x, ast.Compare) and W_.enclosing_function(x) is f.node]
        n += len(cmps)
        if cmps:
            r.looked_at(f)
        for c, a, b in _identity_sites(f.node):
            if W_.enclosing_function(c) is not f.node:
                continue
            r.add(f, c, False, f"`{norm(c)}` compares `{norm(a)}` and `{norm(b)}` by identity: equal values that are distinct objects (a name longer than one "
                  f"character, a tuple, a large int, a freshly computed weight) take the other branch")
    r.add(ModSite(next(iter(P.modules.values()))), None, True, slots=dict(comparisons_examined=n, positive_example="recognised"),
          construct="GEN-IDENTITY: comparisons examined", nontrivial=False)
    if n < 100 and scope is None:
        raise AnalysisError(f"GEN-IDENTITY: only {n} comparisons found")
    return r
