"""Effect rules (C05; also C01, C20): EFFECT, EFF-VIVIFY, MEMO-KEY, REC-CACHEFILL, GLOBAL-STATE."""

from __future__ import annotations

import ast

from ..model import AnalysisError, norm, walk_live, parent, ancestors, first_line
from ..report import RuleResult, ModSite
from .. import walk as W
from .. import fresh as F
from ..fresh import MEMO_FIELDS as A_MEMO_FIELDS

_cache = {}


def analysis(P):
    key = id(P)
    if key not in _cache:
        _cache.clear()
        _cache[key] = F.Analysis(P)
    return _cache[key]


# Frozen tables (A2) -- discovered by the effect analysis on the pinned tree, confirmed by reading.
BUILDERS = {
    # methods whose documented purpose is to mutate the receiver (construction API)
    "cfg.py::CFG.add": "the only rule writer of a grammar",
    "fst.py::FST.add_arc": "construction API",
    "fst.py::FST.set_arc": "construction API",
    "linear.py::WeightedGraph.__setitem__": "construction API of the weighted graph",
    "wfsa/base.py::WFSA.add_state": "construction API",
    "wfsa/base.py::WFSA.add_arc": "construction API",
    "wfsa/base.py::WFSA.add_I": "construction API",
    "wfsa/base.py::WFSA.add_F": "construction API",
    "wfsa/base.py::WFSA.set_arc": "construction API",
    "wfsa/base.py::WFSA.set_I": "construction API",
    "wfsa/base.py::WFSA.set_F": "construction API",
}
PARAM_WRITERS = {
    # internal helpers that fill a column / scratch table handed in by the caller, which must own it
    "parse/earley.py::Earley._update": {"col", "Q"},
    "parse/earley.py::Earley.PREDICT": {"col"},
    "parse/earley.py::Earley._helper": {"q"},
    "parse/earley_rescaled.py::Earley._update": {"col"},
    "parse/earley_rescaled.py::Earley.PREDICT": {"col"},
    "parse/earley_rescaled.py::Earley._helper": {"q"},
}
MEMO_WRITER_NAMES = {"chart", "trim", "clear_cache", "__call__", "__init__"}
GLOBAL_WRITES = {("cfg.py::_gen_nt", "_gen_nt", "i"): "fresh-name counter (names only; A3)"}


def rule_effects(P):
    r = RuleResult(
        "EFFECT",
        "every store / in-place update / mutating call in the package writes an object allocated by the current "
        "activation (freshness analysis), or is a constructor store, a construction-API method on its receiver, a "
        "memo write inside the memo's own getter, or an internal column-filling helper writing a parameter that "
        "every caller owns; grammar fields (rules, N, V, S, R), published chart columns, cached chart lists and "
        "cached_property values are never written by queries or transformations",
        "queries and transformations are pure w.r.t. shared state (histories quantifier)",
    )
    A = analysis(P)
    n_fresh = 0
    for q in sorted(A.effects):
        f = P.funcs[q]
        r.looked_at(f)
        for e in A.effects[q]:
            v = e.val
            slots = dict(kind=e.kind, mutated=e.target, value=F.KNAME[v.kind], root=v.root, field=e.field)
            if e.via:
                slots["via"] = e.via
            if v.kind != F.DERIVED:
                n_fresh += 1
                r.add(f, e.node, True, slots=slots, nontrivial=True,
                      construct=f"{e.kind} {e.target} @ {first_line(W.stmt_of(e.node) if not isinstance(e.node, ast.stmt) else e.node)}")
                continue
            ok, why = _classify(P, A, f, e)
            slots["category"] = why if ok else "unlisted"
            msg = ""
            if not ok:
                msg = _explain(f, e, why)
            r.add(f, e.node, ok, msg, slots=slots,
                  construct=f"{e.kind} {e.target} @ {first_line(W.stmt_of(e.node) if not isinstance(e.node, ast.stmt) else e.node)}")
    r.note(f"{sum(len(v) for v in A.effects.values())} write effects in {len(A.effects)} functions; "
           f"{n_fresh} on objects allocated by the writing activation")
    r.note(f"CFG.spawn copies the vocabulary when V is not passed: {A.spawn_vfresh} (re-derived from its body)")
    r.min_instances = 300
    if not A.spawn_vfresh:
        sp = P.func("cfg.py::CFG.spawn")
        r.note("CFG.spawn shares the vocabulary set with the source grammar; writes to <spawned>.V are reported")
    return r


def _classify(P, A, f, e):
    v = e.val
    q = f.qual
    root = v.root or "unknown"
    memo = e.field in F.MEMO_FIELDS or any(m in e.target for m in F.MEMO_FIELDS)
    if memo and root in ("self", "cache"):
        if f.name in MEMO_WRITER_NAMES or (f.name.startswith("_") and not f.name.startswith("__")):
            return True, "memo write in the memo's getter/reset or a private helper of it (judged by MEMO-KEY)"
        return False, "memo"
    if f.name in ("__init__", "__new__", "__post_init__") and root == "self" and _is_self_path(e.target):
        return True, "constructor store"
    if root == "self":
        if q in BUILDERS:
            return True, f"construction API ({BUILDERS[q]})"
        return False, "self"
    if root.startswith("param:"):
        p = root[6:]
        if q in PARAM_WRITERS and p in PARAM_WRITERS[q]:
            return True, "column-filling helper writing a caller-owned parameter"
        if f.name.startswith("_") and not f.name.startswith("__") and f.cls is not None:
            # a private helper may fill what its caller hands in: the obligation moves to every call site, where the
            # argument must be fresh (a call passing a shared object is itself reported, and a public caller that
            # forwards its own parameter becomes a reported parameter writer)
            return True, "private helper writing a caller-owned parameter (obligation at the call sites)"
        return False, "param"
    if root == "global":
        for (fq, name, fld), why in GLOBAL_WRITES.items():
            if q == fq and e.target == name and e.field == fld:
                return True, why
        return False, "global"
    return False, root


def _is_self_path(t):
    return t == "self" or t.startswith("self.") or t.startswith("self[")


def _explain(f, e, why):
    t = e.target
    if why == "memo":
        return f"`{t}` (a prefix-keyed memo) is written outside its getter: later queries read what this call left"
    if why == "cache":
        return (f"`{t}` was read from a cache / cached_property and is mutated in place: every other holder of that "
                f"object (shorter prefixes, sibling prefixes, the grammar the value was cached on) observes the change")
    if why == "self":
        return (f"`{t}` belongs to the receiver and is written by a method that is neither a constructor nor part of "
                f"the construction API: a query/transformation changes the object it is applied to")
    if why == "param":
        return (f"`{t}` is reached from a parameter the caller still shares (grammar, chart list, column of an "
                f"earlier prefix): the argument is changed under the caller's feet")
    if why == "shared-V":
        return (f"`{t}` is the vocabulary set passed by reference into the new grammar: adding to it changes the "
                f"source grammar's V (and every LM.V aliasing it)")
    if why == "global":
        return f"`{t}` is module-level state shared by all objects"
    return f"`{t}` is not owned by this activation (provenance: {why})"


# ---------------------------------------------------------------- EFF-VIVIFY


def _is_field_expr(f, e, field):
    d = W.deref(f.node, e) if isinstance(e, ast.Name) else e
    return isinstance(d, ast.Attribute) and d.attr == field


def _key_iterations(P, A, field, rel):
    """(func, loop_or_call, keyvar|None) for every iteration over the keys of <obj>.<field> in module rel."""
    out = []
    for f in P.funcs_in(rel):
        for n in walk_live(f.node):
            if isinstance(n, (ast.For, ast.AsyncFor)) and _is_field_expr(f, n.iter, field):
                out.append((f, n, n.target.id if isinstance(n.target, ast.Name) else None))
            elif isinstance(n, ast.comprehension) and _is_field_expr(f, n.iter, field):
                out.append((f, n, n.target.id if isinstance(n.target, ast.Name) else None))
            elif isinstance(n, ast.Call) and isinstance(n.func, ast.Name) and n.func.id in ("list", "set", "sorted", "len", "tuple") \
                    and n.args and _is_field_expr(f, n.args[0], field):
                out.append((f, n, None))
            elif isinstance(n, ast.Call) and isinstance(n.func, ast.Attribute) and n.func.attr in ("keys", "items") \
                    and _is_field_expr(f, n.func.value, field):
                out.append((f, n, None))
    return out


def _escapes_unfiltered(P, f, loop, keyvar, field):
    """Does a per-key result leave the function for keys whose (vivified) value is empty, without a zero filter?
    For-loop form only: a store `<chart>[key] = ...` / yield in the loop body that is not nested in a loop over
    the value <obj>.<field>[key], and whose container reaches a `return` without `.trim()`."""
    if not isinstance(loop, (ast.For, ast.AsyncFor)) or keyvar is None:
        return None  # not a per-key escape we can follow
    stores = []

    def in_value_loop(n):
        for a in ancestors(n):
            if a is loop:
                break
            if isinstance(a, (ast.For, ast.AsyncFor)):
                for s in ast.walk(a.iter):
                    if isinstance(s, ast.Subscript) and _is_field_expr(f, s.value, field):
                        return True
        return False

    for n in walk_live(loop):
        tgt = None
        if isinstance(n, ast.Assign) and len(n.targets) == 1:
            tgt = n.targets[0]
        elif isinstance(n, ast.AugAssign):
            tgt = n.target
        if tgt is not None and isinstance(tgt, ast.Subscript) and any(isinstance(x, ast.Name) and x.id == keyvar for x in ast.walk(tgt.slice)):
            if not in_value_loop(n) and isinstance(tgt.value, ast.Name):
                stores.append((n, tgt.value.id))
        if isinstance(n, ast.Yield) and not in_value_loop(n):
            stores.append((n, None))
    if not stores:
        return False
    # follow the container to the returns
    for st, cname in stores:
        if cname is None:
            return True
        for ret in [x for x in walk_live(f.node) if isinstance(x, ast.Return) and x.value is not None]:
            base, parts = W.full_chain(f.node, ret.value, at=ret)
            names = set()
            for x in ast.walk(ret.value):
                if isinstance(x, ast.Name):
                    names.add(x.id)
            # resolve through reassignments  p = p.trim()
            chain_txt = _def_closure(f, ret.value, ret)
            if cname in chain_txt["names"]:
                if "trim" in chain_txt["calls"]:
                    continue
                return True
    return False


def _def_closure(f, expr, at, depth=0):
    """names and method names on the definitional path of `expr` (following reaching definitions)."""
    names, calls = set(), set()
    work = [(expr, at)]
    seen = set()
    while work and len(seen) < 50:
        e, where = work.pop()
        for x in ast.walk(e):
            if isinstance(x, ast.Call) and isinstance(x.func, ast.Attribute):
                calls.add(x.func.attr)
            if isinstance(x, ast.Name) and isinstance(x.ctx, ast.Load):
                names.add(x.id)
                rd = W.reaching_def(f.node, x.id, where)
                if rd is not None and rd[1] is not None and id(rd[0]) not in seen:
                    seen.add(id(rd[0]))
                    work.append((rd[1], rd[0]))
    return dict(names=names, calls=calls)


def rule_vivify(P):
    r = RuleResult(
        "EFF-VIVIFY",
        "a subscript read of a defaultdict field of a published object inserts the key; if some function iterates "
        "that field's keys and lets a per-key result escape without a zero filter, such a read changes later "
        "answers (accepted idiom: `.get(k, ())`)",
        "reads do not write state that other queries observe",
    )
    A = analysis(P)
    loads_by = {}
    for e in A.vivify:
        loads_by.setdefault((e.func.module.rel, e.field), []).append(e)
    n = 0
    for (rel, field), loads in sorted(loads_by.items()):
        iters = _key_iterations(P, A, field, rel)
        esc = []
        for (f, loop, keyvar) in iters:
            # iteration over an object the function itself fills (mutated parameter => fresh at every call site) is fine
            x = _escapes_unfiltered(P, f, loop, keyvar, field)
            if x:
                esc.append((f, loop))
        for e in loads:
            f = e.func
            r.looked_at(f)
            v = e.val
            if v.kind != F.DERIVED:
                continue  # container allocated here
            root = v.root or ""
            if root.startswith("param:") and root[6:] in A.mutates.get(f.qual, set()):
                continue  # intended insertion into a column the caller owns (judged by EFFECT)
            # key known to be present: the read is inside an iteration over the same container's keys
            present = False
            key = e.node.slice
            for a in ancestors(e.node):
                if isinstance(a, (ast.For, ast.AsyncFor)) and isinstance(a.target, ast.Name) and isinstance(key, ast.Name) \
                        and a.target.id == key.id and _is_field_expr(f, a.iter, field):
                    present = True
            n += 1
            bad = bool(esc) and not present
            msg = ""
            if bad:
                rf, rl = esc[0]
                msg = (f"`{norm(e.node)}` inserts the key into `{e.target}` of a published object; "
                       f"{rf.qual} (line {rl.lineno}) iterates the keys of `{field}` and returns a per-key entry "
                       f"without a zero filter, so a key inserted by this read shows up (with zero weight) in later answers")
            r.add(f, e.node, not bad, msg,
                  slots=dict(field=field, container=e.target, key=norm(key), key_known_present=present,
                             unfiltered_key_readers=[f"{a.qual}:{b.lineno}" for a, b in esc]),
                  witness="EarleyLM: p_next(('a',)) is {c, a} on a fresh object but {c, a, b: 0.0} after "
                          "p_next(('a','b')) (DESIGN §5 D18)" if bad and field == "waiting_for" else None)
        r.note(f"{rel}: field `{field}`: {len(loads)} subscript read(s), {len(iters)} key iteration(s), "
               f"{len(esc)} with an unfiltered per-key escape")
    r.min_instances = 8
    return r


# ---------------------------------------------------------------- MEMO-KEY


PARSERS = [("parse/earley.py", "Earley"), ("parse/earley_rescaled.py", "Earley"), ("parse/cky.py", "IncrementalCKY")]


def _memo_stores(cls, field="_chart"):
    out = []
    for m in cls.methods.values():
        for n in walk_live(m.node):
            if isinstance(n, ast.Assign):
                for t in n.targets:
                    if isinstance(t, ast.Subscript) and isinstance(t.value, ast.Attribute) and t.value.attr == field \
                            and isinstance(t.value.value, ast.Name) and t.value.value.id == "self":
                        out.append((m, n, t))
    return out


def _key_denotes_param(f, key):
    """key is the getter's parameter, `tuple(param)`, an alias of those, or a prefix slice `param[:m]` of it."""
    k = key
    seen = 0
    while isinstance(k, ast.Name) and seen < 5:
        if k.id in f.params[1:]:
            # re-bound to tuple(param)?
            asg = [v for _, v in W.assignments_to(f.node, k.id) if v is not None]
            if all(isinstance(v, ast.Call) and W.call_name(v) == "tuple" and len(v.args) == 1 and W.is_name(v.args[0], k.id)
                   for v in asg):
                return "param"
            return None
        d = W.single_def(f.node, k.id)
        if d is None:
            return None
        k = d
        seen += 1
    if isinstance(k, ast.Call) and W.call_name(k) == "tuple" and len(k.args) == 1 and isinstance(k.args[0], ast.Name) \
            and k.args[0].id in f.params[1:]:
        return "param"
    if isinstance(k, ast.Subscript) and isinstance(k.slice, ast.Slice) and k.slice.lower is None and k.slice.step is None \
            and isinstance(k.value, ast.Name) and k.value.id in f.params[1:]:
        return "prefix"
    return None


def rule_memo_key(P):
    r = RuleResult(
        "MEMO-KEY",
        "every store into a prefix-keyed memo is `memo[K] = fill(K)` with the same key expression K, K being the "
        "whole query argument (or a prefix of it being filled on the way); the look-up uses the whole argument; the "
        "seeded base case equals what fill returns for the empty prefix; `_trim_cache` is indexed by trim's only option",
        "a cached answer is a function of (object, whole key) only",
    )
    for rel, cname in PARSERS:
        cls = P.cls(rel, cname)
        getter = cls.methods.get("chart")
        if getter is None:
            raise AnalysisError(f"{rel}::{cname}.chart not found")
        r.looked_at(getter)
        stores = _memo_stores(cls)
        if not stores:
            raise AnalysisError(f"{rel}::{cname}: no store into self._chart found")
        fill = None
        for m, st, tgt in stores:
            r.looked_at(m)
            key = tgt.slice
            val = st.value
            if isinstance(val, ast.Name):
                rd = W.reaching_def(m.node, val.id, st)
                if rd is not None and rd[1] is not None:
                    val = rd[1]
            if m.name == "chart" or (isinstance(val, ast.Call) and isinstance(val.func, ast.Attribute)
                                     and W.is_name(val.func.value, "self") and not isinstance(key, ast.Tuple)):
                okv = (isinstance(val, ast.Call) and isinstance(val.func, ast.Attribute) and W.is_name(val.func.value, "self")
                       and len(val.args) == 1 and not val.keywords)
                same = okv and norm(val.args[0]) == norm(key)
                kd = _key_denotes_param(m, key) if m.name == "chart" else "n/a"
                ok = bool(same and kd)
                if okv:
                    fill = val.func.attr
                msg = ""
                if not okv:
                    msg = f"stored value `{norm(st.value)}` is not the result of a fill call on the key"
                elif not same:
                    msg = f"memo[{norm(key)}] is filled from `{norm(val.args[0])}`: key and fill argument differ"
                elif not kd:
                    msg = (f"memo key `{norm(key)}` is not the whole query argument (nor a prefix of it): two different "
                           f"queries can collide on it")
                r.add(m, st, ok, msg, slots=dict(key=norm(key), value=norm(val), key_is=kd))
            else:
                # seeding of the base case
                fill_f = cls.methods.get(fill or "_compute_chart")
                base = _base_case_return(fill_f) if fill_f else None
                is_empty = isinstance(key, ast.Tuple) and not key.elts
                ok = is_empty and base is not None and norm(st.value) == base
                r.add(m, st, ok,
                      "" if ok else f"memo seed `{norm(st)}` differs from what {fill or '_compute_chart'} returns for the "
                                    f"empty prefix (`{base}`)",
                      slots=dict(key=norm(key), value=norm(st.value), fill_base_case=base))
        # the look-up
        gets = [n for n in walk_live(getter.node) if isinstance(n, ast.Call) and isinstance(n.func, ast.Attribute)
                and n.func.attr == "get" and norm(n.func.value) == "self._chart"]
        subs = [n for n in walk_live(getter.node) if isinstance(n, ast.Subscript) and isinstance(n.ctx, ast.Load)
                and norm(n.value) == "self._chart"]
        if not gets and not subs:
            raise AnalysisError(f"{getter.qual}: memo look-up not found")
        first = gets[0] if gets else None
        if first is not None:
            kd = _key_denotes_param(getter, first.args[0])
            ok = kd == "param" and len(first.args) == 1
            r.add(getter, first, ok, "" if ok else f"look-up key `{norm(first.args[0])}` is not the whole query argument",
                  slots=dict(lookup_key=norm(first.args[0])))
        # the fill loop of the getter may not assume that any prefix (not even the empty one) is cached: clear_cache empties the memo
        for wl in [n for n in walk_live(getter.node) if isinstance(n, ast.While)]:
            t = wl.test
            conj = t.values if isinstance(t, ast.BoolOp) and isinstance(t.op, ast.And) else [t]
            bounds = [c for c in conj if isinstance(c, ast.Compare) and len(c.ops) == 1 and isinstance(c.ops[0], (ast.Gt, ast.GtE)) and W.int_const(c.comparators[0]) is not None]
            if len(bounds) == 1:
                k = W.int_const(bounds[0].comparators[0])
                lo = k + 1 if isinstance(bounds[0].ops[0], ast.Gt) else k  # smallest n for which the loop still runs
                ok = lo <= 1
                r.add(getter, wl, ok, "" if ok else f"`while {norm(t)}` stops the search at length {lo - 1}: the fill assumes a cached prefix of that length, which "
                      f"clear_cache() removes (KeyError on the first query after clearing)", slots=dict(loop=norm(t)))
        # nothing is evicted between deciding where to resume and filling from there: the fill reads the parent prefix back
        for m in [getter] + [x for x in cls.methods.values() if x.name in ("_compute_chart",)]:
            for n in walk_live(m.node):
                evict = None
                if isinstance(n, ast.Call) and isinstance(n.func, ast.Attribute):
                    if n.func.attr in ("clear", "pop", "popitem") and norm(n.func.value) == "self._chart":
                        evict = norm(n)
                    if n.func.attr == "clear_cache" and W.is_name(n.func.value, "self"):
                        evict = norm(n)
                if isinstance(n, ast.Delete) and any("self._chart" in norm(t) for t in n.targets):
                    evict = norm(n)
                if isinstance(n, ast.Assign) and any(norm(t) == "self._chart" for t in n.targets):
                    evict = norm(n)
                if evict:
                    r.add(m, n, False, f"`{evict}` inside the memo's own fill path: the resume index was computed from the memo before it, and "
                          f"`_compute_chart` reads the parent prefix back from the memo right after (KeyError on a used object where a fresh one "
                          f"answers)", construct=f"{m.name}: eviction during fill")
    # _trim_cache
    trim = P.func("cfg.py::CFG.trim")
    r.looked_at(trim)
    opts = [p for p in trim.params[1:]]
    n_idx = 0
    for m in P.cls("cfg.py", "CFG").methods.values():
        if m.name == "__init__":
            continue
        for n in walk_live(m.node):
            if isinstance(n, ast.Subscript) and norm(n.value).endswith("._trim_cache"):
                n_idx += 1
                # the index is trim's option, or -- in a private helper that trim calls -- the parameter that receives it
                ok = isinstance(n.slice, ast.Name) and n.slice.id in m.params[1:] and (m is trim and len(opts) == 1 or m.name.startswith("_"))
                if not ok or isinstance(n.ctx, ast.Store):
                    r.add(m, n, ok, "" if ok else f"_trim_cache indexed by `{norm(n.slice)}`, not by trim's option",
                          slots=dict(index=norm(n.slice)))
    if n_idx < 3:
        raise AnalysisError("cfg.py::CFG: _trim_cache accesses not found")
    # stored value is the trimmed grammar of the matching pass
    r.min_instances = 3 * 2 + 2
    return r


def _base_case_return(fill_f):
    """normalised return expression of fill under `len(x) == 0` (with the parameter replaced by `()`)."""
    if fill_f is None:
        return None
    p = fill_f.params[1] if len(fill_f.params) > 1 else None
    for n in walk_live(fill_f.node):
        if isinstance(n, ast.Return) and n.value is not None:
            facts = W.guard_facts(n)
            lo, hi = W.len_bounds(facts, p)
            if hi == 0:
                v = n.value
                if isinstance(v, ast.Name):
                    return None
                return norm(v)
    return None


# ---------------------------------------------------------------- REC-CACHEFILL


def rule_rec_cachefill(P):
    r = RuleResult(
        "REC-CACHEFILL",
        "filling a prefix-keyed cache must not recurse on the prefix: a call-graph cycle through the memo getter "
        "whose recursive call passes a strict slice of the parameter has depth = query length, so a cold cache "
        "raises RecursionError where a warm one answers",
        "cold and warm caches give the same answer on long contexts",
    )
    for rel, cname in PARSERS:
        cls = P.cls(rel, cname)
        getter = cls.methods.get("chart")
        if getter is None:
            raise AnalysisError(f"{rel}::{cname}.chart not found")
        # intra-class call graph on self.<m>(...)
        edges = {}
        for m in cls.methods.values():
            for n in walk_live(m.node):
                if isinstance(n, ast.Call) and isinstance(n.func, ast.Attribute) and W.is_name(n.func.value, "self") \
                        and n.func.attr in cls.methods:
                    edges.setdefault(m.name, []).append((n.func.attr, n))
        # cycles through the getter
        reach = {}

        def dfs(u, path):
            for v, call in edges.get(u, []):
                if v == "chart":
                    yield path + [(u, call)]
                elif v not in [p[0] for p in path] and v != u:
                    yield from dfs(v, path + [(u, call)])

        cycles = list(dfs("chart", []))
        r.looked_at(getter)
        if not cycles:
            r.add(getter, getter.node, True, slots=dict(cycle=None), construct=f"{cname}.chart: no recursion through the cache fill")
            continue
        for cyc in cycles:
            last_m, last_call = cyc[-1]
            m = cls.methods[last_m]
            r.looked_at(m)
            strict = None
            for a in last_call.args:
                if isinstance(a, ast.Subscript) and isinstance(a.slice, ast.Slice) and isinstance(a.value, ast.Name) \
                        and a.value.id in m.params:
                    strict = a
            bad = strict is not None
            r.add(m, last_call, not bad,
                  (f"{cname}.chart → {' → '.join(x for x, _ in cyc[1:])} → chart recurses on `{norm(strict)}`: recursion "
                   f"depth equals the length of the uncached suffix (RecursionError on a cold ~500-token context)") if bad else "",
                  slots=dict(cycle=[x for x, _ in cyc] + ["chart"], recursive_argument=norm(strict) if strict is not None else None),
                  witness="EarleyLM.p_next(('a',)*600) cold → RecursionError; the same object answers after incremental "
                          "queries (DESIGN §5 D8)" if bad else None)
    r.min_instances = 3
    return r


# ---------------------------------------------------------------- GLOBAL-STATE

MUTABLE_CTORS = {"dict", "list", "set", "defaultdict", "Counter", "deque", "OrderedDict", "WeakValueDictionary",
                 "WeakKeyDictionary", "bytearray", "Integerizer"}
IMMUTABLE_VALUE_CLASSES = {"Entropy", "Boolean", "MaxPlus", "MaxTimes", "Expectation", "Real", "Log", "Semiring", "Float"}
GLOBAL_ALLOWED = {
    ("cfg.py", "_gen_nt.i"): "fresh-name counter: influences names only (A3)",
    ("fst.py", "FST.PRUNING"): "documented pruning hook, default None; _compose consults it only when coarsen=True",
    ("wfsa/field_wfsa.py", "WFSA.zero"): "shared empty automaton instance (see GEN-SHADOW); never mutated (EFFECT)",
    ("wfsa/field_wfsa.py", "WFSA.one"): "shared ε automaton instance (see GEN-SHADOW); never mutated (EFFECT)",
    ("wfsa/__init__.py", "one"): "re-export of WFSA.one",
    ("wfsa/__init__.py", "zero"): "re-export of WFSA.zero",
}


def _mutable_value(P, m, v):
    if isinstance(v, (ast.Dict, ast.List, ast.Set, ast.ListComp, ast.SetComp, ast.DictComp)):
        return "mutable container literal"
    if isinstance(v, ast.Call):
        nm = W.call_name(v)
        if nm in MUTABLE_CTORS:
            return f"{nm}(...)"
        if nm in ("namedtuple", "frozenset", "tuple", "TypeVar", "compile", "getLogger"):
            return None
        c = None
        if isinstance(v.func, ast.Name):
            rr = P.resolve_name(m, v.func.id)
            if rr and rr[0] == "class":
                c = rr[1]
        elif isinstance(v.func, ast.Attribute) and isinstance(v.func.value, ast.Name):
            rr = P.resolve_name(m, v.func.value.id)
            if rr and rr[0] == "class":
                # classmethod constructor such as WFSA.lift(...) / Expectation.from_string(...)
                c = rr[1]
        if c is not None:
            if any(k.name in IMMUTABLE_VALUE_CLASSES for k in c.mro()):
                return None
            return f"instance of {c.name}"
        if nm in ("lru_cache", "cache"):
            return "function-level cache"
    return None


def rule_global_state(P):
    r = RuleResult(
        "GLOBAL-STATE",
        "inventory of module-level and class-level mutable state (containers, instances of mutable repo classes, "
        "function attributes, class patches): every entry must be in the allowed table with its reason; a new one "
        "(e.g. a module-level cache shared between parser objects) is a violation",
        "no state is shared between objects or survives clear_cache",
    )
    for rel, m in sorted(P.modules.items()):
        site = ModSite(m)
        for st in m.tree.body:
            targets, val = [], None
            if isinstance(st, ast.Assign):
                targets, val = st.targets, st.value
            elif isinstance(st, ast.AnnAssign) and st.value is not None:
                targets, val = [st.target], st.value
            elif isinstance(st, ast.AugAssign):
                targets, val = [st.target], st.value
            for t in targets:
                name = norm(t)
                if name == "__all__":
                    continue
                why = _mutable_value(P, m, val)
                is_attr = isinstance(t, ast.Attribute)
                if is_attr and why is None:
                    # patch with an immutable value (semiring constants): inventory only when it is a function attribute
                    rr = P.resolve_name(m, t.value.id) if isinstance(t.value, ast.Name) else None
                    if rr and rr[0] == "func":
                        why = "function attribute"
                    elif isinstance(val, ast.Constant) and val.value is None and (rel, name) in GLOBAL_ALLOWED:
                        why = "hook slot"
                if isinstance(val, ast.Attribute) and (rel, name) in GLOBAL_ALLOWED:
                    why = why or "alias of shared instance"
                if why is None:
                    continue
                allowed = GLOBAL_ALLOWED.get((rel, name))
                r.add(site, st, allowed is not None,
                      "" if allowed else f"module-level mutable state `{name}` ({why}) is shared by every object of the "
                                         f"package and survives clear_cache; it is not in the allowed inventory",
                      slots=dict(name=name, kind=why, allowed_because=allowed), construct=f"{name} = {first_line(val)}")
        # class-level mutable attributes
        for c in [c for c in P.classes.values() if c.module.rel == rel]:
            for an, av in c.attrs.items():
                if an in ("__slots__",):
                    continue
                why = _mutable_value(P, m, av)
                if why is None:
                    continue
                r.add(ModSite(m), av, False,
                      f"class attribute {c.name}.{an} ({why}) is shared by all instances (e.g. a chart cache shared "
                      f"between parser objects for different grammars)",
                      slots=dict(name=f"{c.name}.{an}", kind=why), construct=f"{c.name}.{an} = {first_line(av)}")
        # decorators that keep hidden per-function state
        for f in P.funcs_in(rel):
            for d in f.decorators:
                if d in ("lru_cache", "cache"):
                    r.add(f, f.node, False, f"@{d} keeps a process-wide memo outside the object (not cleared by clear_cache)",
                          construct=f"@{d} {f.qual}")
    r.min_instances = 5
    return r


# entry points whose answer is specified for the grammar *as it is now*: the rule list of a CFG can still grow (CFG.add
# is public and resets nothing), so nothing they read may be a per-object memo of that rule list
FRESH_READERS = ["cfg.py::CFG.agenda", "cfg.py::CFG.naive_bottom_up", "cfg.py::CFG.treesum", "cfg.py::CFG.dependency_graph"]
_MEMO_DECOS = {"cached_property", "cache", "lru_cache", "memoize"}


def rule_memo_stale(P, entries=FRESH_READERS):
    r = RuleResult(
        "MEMO-STALE",
        "the total-weight evaluators (agenda, naive_bottom_up, treesum) and everything they call on the same grammar "
        "(dependency_graph, _bottom_up_step, ...) read no per-object memo of the rule list - no cached_property / "
        "functools.cache member and no lazily filled `self._x` - unless CFG.add resets it: CFG.add only appends, so a memo "
        "filled before the grammar grew would schedule / evaluate the old rule set",
        "totals are computed from the rules the grammar has now",
    )
    cls = P.cls("cfg.py", "CFG")
    add = cls.methods.get("add")
    reset = set()
    if add is not None:
        for n in walk_live(add.node):
            # self.__dict__.pop('x', None) / del self.x / self.x = None
            if isinstance(n, ast.Call) and isinstance(n.func, ast.Attribute) and n.func.attr == "pop" and "__dict__" in norm(n.func.value) and n.args \
                    and isinstance(n.args[0], ast.Constant):
                reset.add(n.args[0].value)
            if isinstance(n, ast.Delete):
                for t in n.targets:
                    if isinstance(t, ast.Attribute) and W.is_name(t.value, "self"):
                        reset.add(t.attr)
            if isinstance(n, ast.Assign):
                for t in n.targets:
                    if isinstance(t, ast.Attribute) and W.is_name(t.value, "self"):
                        reset.add(t.attr)
    seen, todo = set(), []
    for q in entries:
        if not P.has_func(q):
            raise AnalysisError(f"{q} not found")
        todo.append((P.func(q), (q.split("::")[1],)))
    n_reads = 0
    stores, loads = [], set()
    while todo:
        f, path = todo.pop()
        if f.qual in seen:
            continue
        seen.add(f.qual)
        r.looked_at(f)
        self_name = f.params[0] if f.params else "self"
        # lazily filled field: `if self._x is None: self._x = ...` / `self._x` assigned in this reader
        for n in walk_live(f.node, into_nested=True):
            if isinstance(n, ast.Assign) and f.name != "__init__":
                for t in n.targets:
                    if isinstance(t, ast.Attribute) and W.is_name(t.value, self_name) and t.attr not in reset:
                        stores.append((f, n, t.attr, path))
            if isinstance(n, ast.Attribute) and W.is_name(n.value, self_name) and isinstance(n.ctx, ast.Load):
                loads.add(n.attr)
            if isinstance(n, ast.Call) and isinstance(n.func, ast.Name) and n.func.id == "getattr" and len(n.args) >= 2 and W.is_name(n.args[0], self_name) \
                    and isinstance(n.args[1], ast.Constant):
                loads.add(n.args[1].value)
            if not (isinstance(n, ast.Attribute) and W.is_name(n.value, self_name) and isinstance(n.ctx, ast.Load)):
                continue
            lk = cls.lookup(n.attr)
            m = lk[1] if lk is not None and lk[0] == "method" else None
            if m is None:
                if n.attr in A_MEMO_FIELDS and n.attr not in reset:
                    r.add(f, n, False, f"`{norm(n)}` is a per-object memo read on the path {' → '.join(path)}")
                continue
            n_reads += 1
            memo = set(m.decorators) & _MEMO_DECOS
            if memo:
                ok = n.attr in reset
                r.add(f, n, ok, "" if ok else f"`{norm(n)}` is memoised per object (@{sorted(memo)[0]} on {m.qual.split('::')[1]}) and is read on the path "
                      f"{' → '.join(path)}; CFG.add does not reset it, so after the grammar grows the evaluator keeps using the value computed "
                      f"for the old rule set", slots=dict(path=list(path), member=n.attr))
                continue
            par = parent(n)
            called = isinstance(par, ast.Call) and par.func is n
            if (called or m.is_property) and len(path) < 6:
                todo.append((m, path + (m.name,)))
                r.add(f, n, True, slots=dict(path=list(path), member=n.attr, kind="recomputed on every call"), nontrivial=False)
    for f, n, attr, path in stores:
        # a value stored on the grammar and read back by the evaluators is a lazily filled memo (a store nobody reads is a diagnostic)
        if attr in loads:
            r.add(f, n, False, f"`{first_line(n)}` stores a result on the grammar object on the path {' → '.join(path)} and the evaluators read "
                  f"`self.{attr}` back; CFG.add does not reset it, so the stored value is reused after the grammar has grown")
    if n_reads < 3:
        raise AnalysisError("MEMO-STALE: the evaluators' reads of their own grammar were not found")
    r.min_instances = 3
    return r



