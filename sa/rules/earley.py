"""Slot rules for the two Earley parsers and the incremental CKY parser: FACTOR-EARLEY, FACTOR-NEXTTOK, FACTOR-ICKY."""

from __future__ import annotations

import ast

from ..model import AnalysisError, norm, walk_live, parent, ancestors, first_line
from ..report import RuleResult
from .. import walk as W

FILES = ["parse/earley.py", "parse/earley_rescaled.py"]


def _d(f, e, at=None):
    """normalised text with local aliases (single-definition names bound to attribute chains) expanded"""
    class T(ast.NodeTransformer):
        def visit_Name(self, n):
            if isinstance(n.ctx, ast.Load):
                v = W.single_def(f.node, n.id)
                if v is not None and isinstance(v, (ast.Attribute, ast.Subscript)) and not any(isinstance(x, ast.Call) for x in ast.walk(v)):
                    return self.visit(ast.parse(ast.unparse(v), mode="eval").body)
            return n
    t = T().visit(ast.parse(ast.unparse(e), mode="eval").body)
    return norm(t)


def _update_calls(f):
    out = []
    for n in walk_live(f.node):
        if isinstance(n, ast.Call):
            nm = W.call_name(n)
            if nm == "_update":
                out.append(n)
            elif isinstance(n.func, ast.Name):
                v = W.single_def(f.node, n.func.id)
                if v is not None and norm(v) == "self._update":
                    out.append(n)
    return out


def rule_factor_earley(P, files=FILES):
    r = RuleResult("FACTOR-EARLEY", "next_column of both Earley parsers: the new column is at position k+1; SCAN advances exactly the "
                   "items of the previous column that wait for the token, with their own chart value (times the column's rescale "
                   "factor in the rescaled parser); ATTACH multiplies the customer's value in column J by the completed value popped "
                   "for (J, Y), customers being those of column J waiting for Y; the dot moves to rest_Ys[Ys]; PREDICT runs on the "
                   "new column after the agenda is drained; `_update` treats code 0 (empty remainder) as complete and files "
                   "incomplete items under their first pending symbol; PREDICT seeds every rule of every left-corner-reachable "
                   "nonterminal at (k, k) with its rule weight", "Earley deduction rules are well-formed")
    for rel in files:
        f = P.func(f"{rel}::Earley.next_column")
        r.looked_at(f)
        rescaled = "rescaled" in rel
        prev_cols, token = f.params[1], f.params[2]
        # new column
        cols = [n for n in walk_live(f.node) if isinstance(n, ast.Assign) and isinstance(n.value, ast.Call) and W.call_name(n.value) == "Column"]
        ok = len(cols) == 1 and _d(f, cols[0].value.args[0]) == f"{prev_cols}[-1].k + 1"
        new = cols[0].targets[0].id if cols else "next_col"
        r.add(f, cols[0] if cols else f.node, ok, "" if ok else f"the new column must be Column({prev_cols}[-1].k + 1)")
        ucalls = _update_calls(f)
        if len(ucalls) != 2:
            raise AnalysisError(f"{f.qual}: expected two _update calls (SCAN, ATTACH), found {len(ucalls)}")
        scan = [c for c in ucalls if not any(isinstance(a, ast.While) for a in ancestors(c))]
        attach = [c for c in ucalls if any(isinstance(a, ast.While) for a in ancestors(c))]
        if len(scan) != 1 or len(attach) != 1:
            raise AnalysisError(f"{f.qual}: SCAN / ATTACH calls not recognised")
        # ---- SCAN
        c = scan[0]
        lp = next((a for a in ancestors(c) if isinstance(a, ast.For)), None)
        args = c.args
        k0 = 1 if rescaled else 2  # (col, [Q,] I, X, Ys, value)
        ok = lp is not None and W.is_name(args[0], new)
        it = _d(f, lp.iter) if lp is not None else ""
        ok = ok and it in (f"{prev_cols}[-1].waiting_for.get({token}, ())", f"{prev_cols}[-1].waiting_for[{token}]",
                           f"{prev_cols}[-1].waiting_for.get({token}, [])")
        item = norm(lp.target) if lp is not None else "?"
        unpack = [n for n in walk_live(lp) if isinstance(n, ast.Assign) and isinstance(n.targets[0], ast.Tuple) and W.is_name(n.value, item)] if lp is not None else []
        if unpack:
            I, X, Ys = (norm(e) for e in unpack[0].targets[0].elts)
        elif lp is not None and isinstance(lp.target, ast.Tuple):
            I, X, Ys = (norm(e) for e in lp.target.elts)
            item = f"({I}, {X}, {Ys})"
        else:
            I = X = Ys = "?"
        ok = ok and [norm(a) for a in args[k0:k0 + 2]] == [I, X] and _d(f, args[k0 + 2]) == f"self.rest_Ys[{Ys}]"
        num, den = W.factors(ast.parse(_d(f, args[k0 + 3]), mode="eval").body)
        want = sorted([f"{prev_cols}[-1].i_chart[{item}]"] + ([f"{prev_cols}[-1].rescale"] if rescaled else []))
        ok = ok and num == want and not den
        r.add(f, c, ok, "" if ok else f"SCAN `{first_line(c)}`: must advance each item of {prev_cols}[-1] waiting for `{token}` to "
              f"(I, X, rest_Ys[Ys]) with value {' · '.join(want)}", slots=dict(iterates=it, value=num))
        # ---- ATTACH
        c = attach[0]
        wl = next(a for a in ancestors(c) if isinstance(a, ast.While))
        lp = next((a for a in ancestors(c) if isinstance(a, ast.For)), None)
        pops = [n for n in walk_live(wl) if isinstance(n, ast.Call) and W.call_name(n) == "pop"]
        ok = len(pops) == 1 and lp is not None
        J = Y = key = "?"
        if ok:
            # (J, Y) = jy = Q.pop()[0]
            for n in walk_live(wl):
                if isinstance(n, ast.Assign) and any(isinstance(t, ast.Tuple) and len(t.elts) == 2 for t in n.targets):
                    t = next(t for t in n.targets if isinstance(t, ast.Tuple))
                    J, Y = (norm(e) for e in t.elts)
                    names = [norm(t2) for t2 in n.targets if isinstance(t2, ast.Name)]
                    key = names[0] if names else (norm(n.value) if isinstance(n.value, ast.Name) else f"({J}, {Y})")
            it = _d(f, lp.iter)
            ok = it in (f"{prev_cols}[{J}].waiting_for.get({Y}, ())", f"{prev_cols}[{J}].waiting_for[{Y}]", f"{prev_cols}[{J}].waiting_for.get({Y}, [])")
            cust = norm(lp.target)
            unpack = [n for n in walk_live(lp) if isinstance(n, ast.Assign) and isinstance(n.targets[0], ast.Tuple) and W.is_name(n.value, cust)]
            if unpack:
                I, X, Ys = (norm(e) for e in unpack[0].targets[0].elts)
            args = c.args
            ok = ok and W.is_name(args[0], new) and [norm(a) for a in args[k0:k0 + 2]] == [I, X] and _d(f, args[k0 + 2]) == f"self.rest_Ys[{Ys}]"
            # value = i_chart of the customer in column J  *  completed value of (J, Y) in the new column
            vexpr = ast.parse(_d(f, args[k0 + 3]), mode="eval").body
            num, den = W.factors(vexpr)
            cands = [sorted([f"{prev_cols}[{J}].i_chart[{cust}]", f"{new}.c_chart[{k_}]"]) for k_ in (key, f"({J}, {Y})", f"{J}, {Y}")]
            ok = ok and num in cands and not den
        r.add(f, c, ok, "" if ok else f"ATTACH `{first_line(c)}`: must combine each customer of column J waiting for Y with the completed "
              f"value of the popped item (J, Y): value = i_chart_J[customer] · c_chart_new[(J, Y)]", slots=dict(popped=f"({J}, {Y})"))
        # ---- PREDICT after the drain
        pc = [n for n in walk_live(f.node) if isinstance(n, ast.Call) and W.call_name(n) == "PREDICT"]
        ok = len(pc) == 1 and W.is_name(pc[0].args[0], new) and W.pos(pc[0]) > W.end_pos(wl) and not W.enclosing_loops(pc[0])
        r.add(f, pc[0] if pc else f.node, ok, "" if ok else "PREDICT(new column) must run once, after the agenda has been drained")
        rets = [n for n in walk_live(f.node) if isinstance(n, ast.Return)]
        ok = len(rets) == 1 and W.is_name(rets[0].value, new)
        r.add(f, rets[0] if rets else f.node, ok, "" if ok else "next_column must return the new column")
        # ---- _update
        u = P.func(f"{rel}::Earley._update")
        r.looked_at(u)
        ys = u.params[-2]
        top = [n for n in u.node.body if isinstance(n, ast.If)]
        ok = len(top) == 1 and norm(top[0].test) in (f"{ys} == 0", f"0 == {ys}", f"not {ys}")
        if ok:
            comp, inc = top[0].body, top[0].orelse
            okc = any(isinstance(n, ast.Assign) and "c_chart" in norm(n.targets[0]) for s in comp for n in ast.walk(s)) and \
                not any(isinstance(n, ast.Assign) and "i_chart" in norm(n.targets[0]) for s in comp for n in ast.walk(s))
            oki = any(isinstance(n, ast.Assign) and "i_chart" in norm(n.targets[0]) for s in inc for n in ast.walk(s))
            app = [n for s in inc for n in ast.walk(s) if isinstance(n, ast.Call) and W.call_name(n) == "append"]
            okw = len(app) == 1 and norm(W.receiver(app[0])) == f"{u.params[1]}.waiting_for[self.first_Ys[{ys}]]"
            ok = okc and oki and okw
        r.add(u, top[0] if top else u.node, ok, "" if ok else "_update: remainder code 0 ⇒ complete item in c_chart; otherwise incomplete item in "
              "i_chart, filed in waiting_for under first_Ys[Ys]")
        # ---- PREDICT
        p = P.func(f"{rel}::Earley.PREDICT")
        r.looked_at(p)
        pcalls = _update_calls(p)
        ok = len(pcalls) == 1
        if ok:
            c = pcalls[0]
            loops = [a for a in ancestors(c) if isinstance(a, ast.For)]
            ok = len(loops) == 2
            if ok:
                inner, outer = loops[0], loops[1]
                w_, ys_ = (norm(e) for e in inner.target.elts) if isinstance(inner.target, ast.Tuple) else ("?", "?")
                x_ = norm(outer.target)
                args = [norm(a) for a in c.args]
                kk = _d(p, c.args[k0])
                ok = _d(p, inner.iter) in (f"self.rhs.get({x_}, ())", f"self.rhs[{x_}]", f"self.rhs.get({x_}, [])") and args[0] == p.params[1] \
                    and kk == f"{p.params[1]}.k" and args[k0 + 1:k0 + 4] == [x_, ys_, w_]
                # the set iterated is the left-corner closure
                reach = norm(outer.iter)
                adds = [n for n in walk_live(p.node) if isinstance(n, ast.Call) and W.call_name(n) == "add" and W.is_name(W.receiver(n), reach)]
                ok = ok and len(adds) == 1
        r.add(p, pcalls[0] if pcalls else p.node, ok, "" if ok else "PREDICT must add (k, X, Ys, k) with the rule weight for every rule of every reachable X")
        # seeds of the reachability
        seeds = [n for n in walk_live(p.node) if isinstance(n, ast.If) and norm(n.test) in (f"{p.params[1]}.k == 0", "k == 0")]
        ok = len(seeds) == 1
        if ok:
            b = norm(seeds[0].body[0].value) if isinstance(seeds[0].body[0], ast.Assign) else ""
            o = norm(seeds[0].orelse[0].value) if seeds[0].orelse and isinstance(seeds[0].orelse[0], ast.Assign) else ""
            ok = b in ("[self.cfg.S]", "{self.cfg.S}") and o in (f"list({p.params[1]}.waiting_for)", f"set({p.params[1]}.waiting_for)")
        r.add(p, seeds[0] if seeds else p.node, ok, "" if ok else "PREDICT seeds: the start symbol in column 0, otherwise every symbol some item of the column waits for")
    r.min_instances = 7 * len(files)
    return r


def rule_factor_nexttok(P, files=FILES):
    r = RuleResult("FACTOR-NEXTTOK", "next_token_weights (backward pass): q is seeded with q(0, S) = one; for every terminal Y some item of "
                   "the last column waits for, the weight is Σ i_chart[I, X, [Y]] · q(I, X) over items whose remainder is exactly [Y]; "
                   "_helper computes q(J, Y) = Σ i_chart_J[customer] · q(customer's (I, X)) over unit customers of column J",
                   "outside weights of the last column are well-formed")
    for rel in files:
        f = P.func(f"{rel}::Earley.next_token_weights")
        h = P.func(f"{rel}::Earley._helper")
        r.looked_at(f, h)
        cols = f.params[1]
        seeds = [n for n in walk_live(f.node) if isinstance(n, ast.Assign) and isinstance(n.targets[0], ast.Subscript) and norm(n.value).endswith(".one")]
        ok = len(seeds) == 1 and norm(seeds[0].targets[0].slice) in ("(0, self.cfg.S)", "0, self.cfg.S")
        qn = norm(seeds[0].targets[0].value) if seeds else "q"
        r.add(f, seeds[0] if seeds else f.node, ok, "" if ok else "q must be seeded with q[0, S] = one only")
        outer = [n for n in walk_live(f.node) if isinstance(n, ast.For) and _d(f, n.iter) == f"{cols}[-1].waiting_for"]
        ok = len(outer) == 1
        if not ok:
            r.add(f, f.node, False, "loop over the symbols the last column waits for not found", construct="next_token_weights: outer loop")
            continue
        y = norm(outer[0].target)
        tfacts = [n for n in walk_live(outer[0]) if isinstance(n, ast.If) and _d(f, n.test) == f"self.cfg.is_terminal({y})"]
        accs = [n for n in walk_live(outer[0]) if isinstance(n, ast.AugAssign) and isinstance(n.op, ast.Add)]
        ok = len(tfacts) == 1 and len(accs) == 1
        if ok:
            a = accs[0]
            lp = next(x for x in ancestors(a) if isinstance(x, ast.For))
            I, X, Ys = (norm(e) for e in lp.target.elts)
            unit = any(ft.pol and norm(ft.test) == f"self.unit_Ys[{Ys}]" for ft in W.guard_facts(a))
            num, den = W.factors(ast.parse(_d(f, a.value), mode="eval").body)
            vname = [x for x in num if not x.startswith(f"{cols}[-1]")]
            vdef = W.single_def(f.node, vname[0]) if len(vname) == 1 else None
            hv = vdef is not None and isinstance(vdef, ast.Call) and W.call_name(vdef) == "_helper" and \
                len(vdef.args) == 3 and [norm(W.deref(f.node, vdef.args[0])), norm(vdef.args[1]), norm(vdef.args[2])] == [f"({I}, {X})", cols, qn]
            ok = unit and f"{cols}[-1].i_chart[{I}, {X}, {Ys}]" in num and len(num) == 2 and hv and _d(f, lp.iter) == f"{cols}[-1].waiting_for[{y}]"
            st = [n for n in walk_live(outer[0]) if isinstance(n, ast.Assign) and isinstance(n.targets[0], ast.Subscript) and norm(n.targets[0].slice) == y]
            ok = ok and len(st) == 1 and norm(st[0].value) == norm(a.target)
        r.add(f, accs[0] if accs else outer[0], ok, "" if ok else "p[Y] must be Σ i_chart[I, X, Ys] · q(I, X) over the unit items waiting for the terminal Y")
        # _helper
        top, hc, hq = h.params[1], h.params[2], h.params[3]
        accs = [n for n in walk_live(h.node) if isinstance(n, ast.AugAssign) and isinstance(n.op, ast.Add) and norm(n.target).endswith(".value")]
        edges = [n for n in walk_live(h.node) if isinstance(n, ast.Assign) and norm(n.targets[0]).endswith(".edges")]
        ok = len(accs) == 1 and len(edges) == 1
        if ok:
            e = edges[0].value
            ok = isinstance(e, ast.ListComp) and len(e.generators) == 1 and len(e.generators[0].ifs) == 1
            if ok:
                g = e.generators[0]
                xv = norm(g.target)
                ok = norm(g.ifs[0]) == f"self.unit_Ys[{xv}[2]]" and norm(e.elt) == xv and \
                    _d(h, g.iter).startswith(f"{hc}[") and ".waiting_for" in _d(h, g.iter)
            num, den = W.factors(accs[0].value)
            ok = ok and len(num) == 2 and any(x.startswith(f"{hc}[") and ".i_chart[" in x for x in num)
        r.add(h, accs[0] if accs else h.node, ok, "" if ok else "_helper: q(J, Y) must sum i_chart_J[customer] · q(I, X) over the unit customers of (J, Y)")
        st = [n for n in walk_live(h.node) if isinstance(n, ast.Assign) and isinstance(n.targets[0], ast.Subscript) and W.is_name(n.targets[0].value, hq)]
        ok = len(st) == 1 and norm(st[0].value).endswith(".value") and norm(st[0].targets[0].slice).endswith(".node")
        r.add(h, st[0] if st else h.node, ok, "" if ok else "_helper must memoise the finished node's value under the node's own key")
    r.min_instances = 4 * len(files)
    return r


def rule_factor_icky(P):
    r = RuleResult("FACTOR-ICKY", "IncrementalCKY: extend_chart adds r.w·y·z to new[i][X] for Y over chart[j][i], rules X→Y Z indexed by Y, z = new[j][Z]; "
                   "the preterminal cell is new[k-1][head] += r.w for rules of the last token; next_token_weights propagates "
                   "α_j[Z] += r.w·y·α_i[X] and returns q[w] += r.w·α[k-1][head]; the start cell α[0][S] is seeded with one",
                   "incremental CKY recurrences are well-formed")
    ext = P.func("parse/cky.py::IncrementalCKY.extend_chart")
    ntw = P.func("parse/cky.py::IncrementalCKY.next_token_weights")
    r.looked_at(ext, ntw)
    for f, kind in ((ext, "inside"), (ntw, "outside")):
        accs = [n for n in walk_live(f.node) if isinstance(n, ast.AugAssign) and isinstance(n.op, ast.Add) and len(W.enclosing_loops(n)) >= 3]
        ok = len(accs) == 1
        if ok:
            a = accs[0]
            loops = W.enclosing_loops(a)  # innermost first
            rl, yl, jl, sl = loops[0], loops[1], loops[2], loops[3] if len(loops) > 3 else None
            rv = norm(rl.target)
            Y, y = (norm(e) for e in yl.target.elts) if isinstance(yl.target, ast.Tuple) else ("?", "?")
            j = norm(jl.target)
            chart = f.params[1]
            # i = k - span
            ivar = None
            for n in walk_live(f.node):
                if isinstance(n, ast.Assign) and isinstance(n.targets[0], ast.Name) and isinstance(n.value, ast.BinOp) and isinstance(n.value.op, ast.Sub) \
                        and sl is not None and norm(n.value.right) == norm(sl.target):
                    ivar = n.targets[0].id
            ok = _d(f, rl.iter) == f"self.r_y_xz[{Y}]" and _d(f, yl.iter) == f"{chart}[{j}][{ivar}].items()" \
                and norm(jl.iter) == f"range({ivar} + 1, k)"
            vexpr = ast.parse(_d(f, a.value), mode="eval").body
            # inline x = r.w * y * z
            if isinstance(a.value, ast.Name):
                rd = W.reaching_def(f.node, a.value.id, a)
                if rd and rd[1] is not None:
                    vexpr = rd[1]
            num, den = W.factors(vexpr)
            tgt = _d(f, a.target)
            if kind == "inside":
                zdef = [n for n in walk_live(rl) if isinstance(n, ast.Assign) and isinstance(n.value, ast.Subscript) and _d(f, n.value) == f"new[{j}][{rv}.body[1]]"]
                zname = zdef[0].targets[0].id if zdef else "?"
                ok = ok and sorted(num) == sorted([f"{rv}.w", y, zname]) and not den and tgt == f"new[{ivar}][{rv}.head]"
            else:
                ok = ok and tgt == f"α[{j}][{rv}.body[1]]" and sorted(num) == sorted([f"{rv}.w", y, f"α[{ivar}][{rv}.head]"]) and not den
        r.add(f, accs[0] if accs else f.node, ok, "" if ok else f"the binary {'inside' if kind == 'inside' else 'outside'} update of {f.name} is not of the stated form")
    # preterminal cells
    pre = [n for n in walk_live(ext.node) if isinstance(n, ast.AugAssign) and isinstance(n.op, ast.Add) and len(W.enclosing_loops(n)) == 1
           and norm(n.value).endswith(".w")]
    ok = len(pre) == 1
    if ok:
        a = pre[0]
        lp = W.enclosing_loops(a)[0]
        rv = norm(lp.target)
        p = ext.params[2]
        ok = _d(ext, a.target) == f"new[k - 1][{rv}.head]" and norm(lp.iter) == f"self.terminal[{p}[k - 1]]"
    r.add(ext, pre[0] if pre else ext.node, ok, "" if ok else "extend_chart: the preterminal cell must be new[k-1][r.head] += r.w for rules of the last token")
    q = [n for n in walk_live(ntw.node) if isinstance(n, ast.AugAssign) and isinstance(n.op, ast.Add) and len(W.enclosing_loops(n)) == 2
         and not any(isinstance(x, ast.For) and "range" in norm(x.iter) for x in W.enclosing_loops(n))]
    ok = len(q) == 1
    if ok:
        a = q[0]
        inner, outer = W.enclosing_loops(a)
        rv, w = norm(inner.target), norm(outer.target)
        num, den = W.factors(ast.parse(_d(ntw, a.value), mode="eval").body)
        ok = norm(inner.iter) == f"self.terminal[{w}]" or _d(ntw, inner.iter) == f"self.terminal[{w}]"
        ok = ok and sorted(num) == sorted([f"{rv}.w", f"α[k - 1][{rv}.head]"]) and norm(a.target.slice) == w and _d(ntw, outer.iter) == "self.cfg.V"
    r.add(ntw, q[0] if q else ntw.node, ok, "" if ok else "next_token_weights: q[w] must be Σ r.w · α[k-1][r.head] over the preterminal rules of w, for every w in V")
    seed = [n for n in walk_live(ntw.node) if isinstance(n, ast.AugAssign) and norm(n.value).endswith(".one")]
    ok = len(seed) == 1 and _d(ntw, seed[0].target) == "α[0][self.cfg.S]"
    r.add(ntw, seed[0] if seed else ntw.node, ok, "" if ok else "the outside pass must be seeded with α[0][S] = one")
    r.min_instances = 5
    return r
