"""Slot rules for the two Earley parsers and the incremental CKY parser: FACTOR-EARLEY, FACTOR-NEXTTOK, FACTOR-ICKY.

Every slot is compared in canonical form (walk.canon_ast).  A slot whose shape is recognised but whose content is
wrong is a violation; a site that cannot be located or whose shape is not recognised is *undecided* (ANALYSIS-ERROR),
never a violation.
"""

from __future__ import annotations

import ast
import re

from ..model import AnalysisError, norm, walk_live, parent, ancestors, first_line
from ..report import RuleResult
from .. import walk as W

FILES = ["parse/earley.py", "parse/earley_rescaled.py"]

WAIT = re.compile(r"^(?P<col>.+)\.waiting_for(?:\.get\((?P<k1>.+), (?:\(\)|\[\])\)|\[(?P<k2>.+)\])$")


def _update_calls(f):
    out = []
    for n in walk_live(f.node):
        if isinstance(n, ast.Call):
            if isinstance(n.func, ast.Attribute) and n.func.attr == "_update":
                out.append(n)
            elif isinstance(n.func, ast.Name):
                v = W.single_def(f.node, n.func.id)
                if v is not None and norm(v) == "self._update":
                    out.append(n)
    return out


def _c(f, e, at=None):
    return W.cnorm(f.node, e, at if at is not None else e)


def _unpack3(f, loop):
    """(I, X, Ys, item texts) for a loop over items unpacked into three names (loop target or a statement of the body)"""
    t = loop.target
    if isinstance(t, ast.Tuple) and len(t.elts) == 3:
        I, X, Ys = (norm(e) for e in t.elts)
        return I, X, Ys, (f"{I}, {X}, {Ys}",)
    if isinstance(t, ast.Name):
        for st in loop.body:
            if isinstance(st, ast.Assign) and isinstance(st.value, ast.Name) and st.value.id == t.id:
                for tt in st.targets:
                    if isinstance(tt, ast.Tuple) and len(tt.elts) == 3 and all(isinstance(e, ast.Name) for e in tt.elts):
                        I, X, Ys = (e.id for e in tt.elts)
                        return I, X, Ys, (f"{I}, {X}, {Ys}", t.id)
    return None


def _flat(x):
    return x.replace("(", "").replace(")", "")


def rule_factor_earley(P, files=FILES):
    r = RuleResult("FACTOR-EARLEY", "next_column of both Earley parsers: the new column is at position k+1; SCAN advances exactly the "
                   "items of the previous column that wait for the token, with their own chart value (times the column's rescale "
                   "factor in the rescaled parser); ATTACH multiplies the customer's value in column J by the completed value popped "
                   "for (J, Y), customers being those of column J waiting for Y; the dot moves to rest_Ys[Ys]; PREDICT runs on the "
                   "new column after the agenda is drained; `_update` treats code 0 (empty remainder) as complete and files "
                   "incomplete items under their first pending symbol; PREDICT seeds every rule of every left-corner-reachable "
                   "nonterminal at (k, k) with its rule weight", "Earley deduction rules are well-formed")
    for rel in files:
        f = P.func(f"{rel}::Earley.next_column")
        r.looked_at(f)
        rescaled = "rescaled" in rel
        prev_cols, token = f.params[1], f.params[2]
        k0 = 1 if rescaled else 2  # (col, [Q,] I, X, Ys, value)
        # ---- new column
        cols = [n for n in walk_live(f.node) if isinstance(n, ast.Assign) and isinstance(n.value, ast.Call) and W.call_name(n.value) == "Column"
                and isinstance(n.targets[0], ast.Name)]
        if len(cols) != 1 or not cols[0].value.args:
            r.undecided(f, f.node, "construction of the new column not found", construct="next_column: new column")
            continue
        new = cols[0].targets[0].id
        ok = _c(f, cols[0].value.args[0], cols[0]) == f"{prev_cols}[-1].k + 1"
        r.add(f, cols[0], ok, "" if ok else f"the new column must be Column({prev_cols}[-1].k + 1), got `{_c(f, cols[0].value.args[0], cols[0])}`")
        ucalls = _update_calls(f)
        scan = [c for c in ucalls if not any(isinstance(a, ast.While) for a in ancestors(c))]
        attach = [c for c in ucalls if any(isinstance(a, ast.While) for a in ancestors(c))]
        if len(scan) != 1 or len(attach) != 1 or any(len(c.args) != k0 + 4 for c in ucalls):
            r.undecided(f, f.node, f"SCAN / ATTACH `_update` calls not recognised in next_column ({len(scan)} outside, {len(attach)} inside a while loop)",
                        construct="next_column: SCAN and ATTACH sites")
            continue
        # ---- SCAN
        c = scan[0]
        lp = next((a for a in ancestors(c) if isinstance(a, ast.For)), None)
        u3 = _unpack3(f, lp) if lp is not None else None
        m = WAIT.match(W.citer(f.node, lp)) if lp is not None else None
        if lp is None or u3 is None or m is None:
            r.undecided(f, c, "SCAN loop shape not recognised", construct="next_column: SCAN")
        else:
            I, X, Ys, item = u3
            col, key = m.group("col"), m.group("k1") or m.group("k2")
            probs = []
            if col != f"{prev_cols}[-1]" or key != token:
                probs.append(f"iterates `{col}.waiting_for[{key}]`, not the previous column's items waiting for `{token}`")
            if not W.is_name(c.args[0], new):
                probs.append("does not write the new column")
            if [norm(a) for a in c.args[k0:k0 + 2]] != [I, X]:
                probs.append("start position / head changed")
            adv = _c(f, c.args[k0 + 2], c)
            if adv != f"self.rest_Ys[{Ys}]":
                probs.append(f"the dot is not advanced (remainder `{adv}`)")
            num, den = W.cfactors(f.node, c.args[k0 + 3], c)
            wants = [sorted([f"{prev_cols}[-1].i_chart[{it}]"] + ([f"{prev_cols}[-1].rescale"] if rescaled else [])) for it in item]
            want = wants[0]
            kinds_ok = all(".i_chart[" in x or x.endswith(".rescale") for x in num)
            if sorted(map(_flat, num)) not in [sorted(map(_flat, w_)) for w_ in wants] or den:
                if kinds_ok:
                    probs.append(f"value is {' · '.join(num)}, expected {' · '.join(want)}")
                else:
                    r.undecided(f, c, f"SCAN value `{' · '.join(num)}` not recognised", construct="next_column: SCAN value")
            r.add(f, c, not probs, "SCAN: " + "; ".join(probs) if probs else "", slots=dict(iterates=f"{col}.waiting_for[{key}]", value=num))
        # ---- ATTACH
        c = attach[0]
        wl = next(a for a in ancestors(c) if isinstance(a, ast.While))
        lp = next((a for a in ancestors(c) if isinstance(a, ast.For) and W._within(a, wl)), None)
        pair = None
        for n in walk_live(wl):
            if isinstance(n, ast.Assign):
                for t in n.targets:
                    if isinstance(t, ast.Tuple) and len(t.elts) == 2 and all(isinstance(e, ast.Name) for e in t.elts):
                        pair = (t.elts[0].id, t.elts[1].id)
        u3 = _unpack3(f, lp) if lp is not None else None
        m = WAIT.match(W.citer(f.node, lp)) if lp is not None else None
        if lp is None or u3 is None or m is None or pair is None:
            r.undecided(f, c, "ATTACH loop shape not recognised", construct="next_column: ATTACH")
        else:
            J, Y = pair
            I, X, Ys, cust = u3
            col, key = m.group("col"), m.group("k1") or m.group("k2")
            probs = []
            if col != f"{prev_cols}[{J}]" or key != Y:
                probs.append(f"customers are taken from `{col}.waiting_for[{key}]`, not from column {J} waiting for {Y}")
            if [norm(a) for a in c.args[k0:k0 + 2]] != [I, X]:
                probs.append("start position / head changed")
            adv = _c(f, c.args[k0 + 2], c)
            if adv != f"self.rest_Ys[{Ys}]":
                probs.append(f"the dot is not advanced (remainder `{adv}`)")
            num, den = W.cfactors(f.node, c.args[k0 + 3], c)
            popped = {f"{J}, {Y}"}
            for n in walk_live(wl):
                if isinstance(n, ast.Assign) and any(isinstance(t, ast.Tuple) and [getattr(e, "id", None) for e in t.elts] == [J, Y] for t in n.targets):
                    popped.update(t.id for t in n.targets if isinstance(t, ast.Name))
                    if isinstance(n.value, ast.Name):
                        popped.add(n.value.id)
            wants = [sorted([f"{prev_cols}[{J}].i_chart[{cu}]", f"{new}.c_chart[{pk}]"]) for cu in cust for pk in popped]
            want = wants[0]
            kinds_ok = len(num) <= 3 and all(".i_chart[" in x or ".c_chart[" in x for x in num)
            if sorted(map(_flat, num)) not in [sorted(map(_flat, w_)) for w_ in wants] or den:
                if kinds_ok:
                    probs.append(f"value is {' · '.join(num)}, expected {' · '.join(want)}")
                else:
                    r.undecided(f, c, f"ATTACH value `{' · '.join(num)}` not recognised", construct="next_column: ATTACH value")
            r.add(f, c, not probs, "ATTACH: " + "; ".join(probs) if probs else "", slots=dict(popped=f"({J}, {Y})", value=num))
        # ---- PREDICT after the drain
        pc = [n for n in walk_live(f.node) if isinstance(n, ast.Call) and W.call_name(n) == "PREDICT"]
        early = [x for x in pc if W.pos(x) < W.end_pos(wl)]
        if early:
            r.add(f, early[0], False, "PREDICT runs before the agenda has been drained: items completed later in this column are never predicted from")
        elif len(pc) != 1:
            r.undecided(f, f.node, f"{len(pc)} PREDICT calls in next_column", construct="next_column: PREDICT")
        else:
            ok = W.is_name(pc[0].args[0], new) and W.pos(pc[0]) > W.end_pos(wl) and not W.enclosing_loops(pc[0])
            r.add(f, pc[0], ok, "" if ok else "PREDICT(new column) must run once, after the agenda has been drained")
        rets = [n for n in walk_live(f.node) if isinstance(n, ast.Return)]
        ok = len(rets) == 1 and W.is_name(rets[0].value, new)
        r.add(f, rets[0] if rets else f.node, ok, "" if ok else "next_column must return the new column")
        # ---- _update
        u = P.func(f"{rel}::Earley._update")
        r.looked_at(u)
        ys = u.params[-2]
        top = [n for n in u.node.body if isinstance(n, ast.If)]
        if len(top) != 1:
            r.undecided(u, u.node, "_update: top-level complete/incomplete split not recognised", construct="_update split")
        else:
            t = W.cfact_text(W.Fact(W.canon_ast(u.node, top[0].test, top[0]), True, top[0], "if"))
            if t in (f"0 == {ys}", f"{ys} == 0", f"not {ys}"):
                comp, inc = top[0].body, top[0].orelse
            elif t in (f"0 != {ys}", f"{ys} != 0", f"{ys}"):
                comp, inc = top[0].orelse, top[0].body
            else:
                comp = inc = None
            if comp is None:
                r.undecided(u, top[0], f"_update: test `{t}` not recognised", construct="_update split")
            else:
                def stores(block, which):
                    return any(isinstance(n, ast.Assign) and isinstance(n.targets[0], ast.Subscript) and W.cnorm(u.node, n.targets[0].value, n).endswith(which)
                               for s in block for n in ast.walk(s))
                okc = stores(comp, ".c_chart") and not stores(comp, ".i_chart")
                oki = stores(inc, ".i_chart") and not stores(inc, ".c_chart")
                app = [n for s in inc for n in ast.walk(s) if isinstance(n, ast.Call) and W.call_name(n) == "append"]
                okw = len(app) == 1 and W.cnorm(u.node, W.receiver(app[0]), app[0]) == f"{u.params[1]}.waiting_for[self.first_Ys[{ys}]]"
                ok = okc and oki and okw
                r.add(u, top[0], ok, "" if ok else "_update: remainder code 0 ⇒ complete item in c_chart; otherwise incomplete item in "
                      "i_chart, filed in waiting_for under first_Ys[Ys]", slots=dict(complete_ok=okc, incomplete_ok=oki, filed_ok=okw))
        # ---- PREDICT
        p = P.func(f"{rel}::Earley.PREDICT")
        r.looked_at(p)
        pcalls = _update_calls(p)
        colp = p.params[1]
        loops = [a for a in ancestors(pcalls[0]) if isinstance(a, ast.For)] if len(pcalls) == 1 else []
        if len(pcalls) != 1 or len(loops) != 2 or not isinstance(loops[0].target, ast.Tuple):
            r.undecided(p, p.node, "PREDICT: the loop adding predicted items not recognised", construct="PREDICT items")
        else:
            c = pcalls[0]
            inner, outer = loops[0], loops[1]
            w_, ys_ = (norm(e) for e in inner.target.elts)
            x_ = norm(outer.target)
            ok = W.citer(p.node, inner) in (f"self.rhs.get({x_}, ())", f"self.rhs[{x_}]", f"self.rhs.get({x_}, [])") and norm(c.args[0]) == colp \
                and _c(p, c.args[k0], c) == f"{colp}.k" and [norm(a) for a in c.args[k0 + 1:k0 + 4]] == [x_, ys_, w_]
            r.add(p, c, ok, "" if ok else "PREDICT must add (k, X, Ys, k) with the rule weight for every rule of every reachable X")
        # seeds of the reachability: the start symbol in column 0, otherwise every symbol some item of the column waits for
        seeds = [n for n in walk_live(p.node) if isinstance(n, ast.If) and ".k" in W.cnorm(p.node, n.test, n) and "0" in norm(n.test)]
        if len(seeds) != 1 or not seeds[0].orelse:
            r.undecided(p, p.node, "PREDICT: seed selection (column 0 vs later columns) not recognised", construct="PREDICT seeds")
        else:
            t = W.cfact_text(W.Fact(W.canon_ast(p.node, seeds[0].test, seeds[0]), True, seeds[0], "if"))
            zero_arm, later_arm = (seeds[0].body, seeds[0].orelse) if t in (f"0 == {colp}.k", f"{colp}.k == 0") else \
                ((seeds[0].orelse, seeds[0].body) if t in (f"0 != {colp}.k", f"{colp}.k != 0", f"0 < {colp}.k") else (None, None))
            if zero_arm is None or not isinstance(zero_arm[0], ast.Assign) or not isinstance(later_arm[0], ast.Assign):
                r.undecided(p, seeds[0], f"PREDICT: seed test `{t}` not recognised", construct="PREDICT seeds")
            else:
                b = norm(zero_arm[0].value)
                o = W.cnorm(p.node, later_arm[0].value, later_arm[0])
                ok = b in ("[self.cfg.S]", "{self.cfg.S}") and o in (f"list({colp}.waiting_for)", f"set({colp}.waiting_for)")
                r.add(p, seeds[0], ok, "" if ok else f"PREDICT seeds are `{b}` in column 0 and `{o}` later; expected the start symbol / the awaited symbols")
    r.min_instances = 5 * len(files)
    return r


def rule_factor_nexttok(P, files=FILES):
    r = RuleResult("FACTOR-NEXTTOK", "next_token_weights (backward pass): q is seeded with q(0, S) = one; for every terminal Y some item of "
                   "the last column waits for, the weight is Σ i_chart[I, X, [Y]] · q(I, X) over items whose remainder is exactly [Y]; "
                   "_helper accumulates i_chart_J[customer] · q(customer's (I, X)) over unit customers of column J",
                   "outside weights of the last column are well-formed")
    for rel in files:
        f = P.func(f"{rel}::Earley.next_token_weights")
        h = P.func(f"{rel}::Earley._helper")
        r.looked_at(f, h)
        cols = f.params[1]
        seeds = [n for n in walk_live(f.node) if isinstance(n, ast.Assign) and isinstance(n.targets[0], ast.Subscript) and norm(n.value).endswith(".one")]
        if len(seeds) > 1:
            r.add(f, seeds[1], False, f"q is seeded with {len(seeds)} entries; only q[0, S] = one is the boundary condition of the outside pass")
            continue
        if len(seeds) != 1:
            r.undecided(f, f.node, "seeding of q not recognised", construct="next_token_weights: q seed")
            continue
        ok = norm(seeds[0].targets[0].slice) in ("(0, self.cfg.S)", "0, self.cfg.S")
        qn = norm(seeds[0].targets[0].value)
        r.add(f, seeds[0], ok, "" if ok else "q must be seeded with q[0, S] = one only")
        outer = [n for n in walk_live(f.node) if isinstance(n, ast.For) and W.citer(f.node, n) == f"{cols}[-1].waiting_for"]
        accs = [n for n in walk_live(outer[0]) if isinstance(n, ast.AugAssign) and isinstance(n.op, ast.Add)] if len(outer) == 1 else []
        if len(outer) != 1 or len(accs) != 1:
            r.undecided(f, f.node, "loop over the symbols the last column waits for / its accumulation not recognised", construct="next_token_weights: per-symbol sum")
            continue
        y = norm(outer[0].target)
        a = accs[0]
        lp = next((x for x in ancestors(a) if isinstance(x, ast.For) and x is not outer[0]), None)
        u3 = _unpack3(f, lp) if lp is not None else None
        if lp is None or u3 is None:
            r.undecided(f, a, "item loop of next_token_weights not recognised", construct="next_token_weights: item loop")
            continue
        I, X, Ys, item = u3
        facts = W.cfacts(f.node, a)
        probs = []
        if f"self.cfg.is_terminal({y})" not in facts:
            probs.append(f"not restricted to terminal symbols ({sorted(facts)})")
        if f"self.unit_Ys[{Ys}]" not in facts:
            probs.append("items whose remainder is longer than the awaited symbol are included")
        if W.citer(f.node, lp) not in (f"{cols}[-1].waiting_for[{y}]", f"{cols}[-1].waiting_for.get({y}, ())"):
            probs.append(f"items are taken from `{W.citer(f.node, lp)}`")
        num, den = W.cfactors(f.node, a.value, a)
        keys = {_flat(f"{cols}[-1].i_chart[{it}]") for it in item}
        others = [x for x in num if _flat(x) not in keys]
        if len(others) != 1 or len(num) != 2 or den:
            probs.append(f"summand is {' · '.join(num)}")
        else:
            vdef = None
            try:
                tree = ast.parse(others[0], mode="eval").body
            except SyntaxError:
                tree = None
            if tree is not None:
                for n in ast.walk(tree):
                    if isinstance(n, ast.Call) and W.call_name(n) == "_helper":
                        vdef = n
                if vdef is None and isinstance(tree, ast.Name):
                    d = W.single_def(f.node, tree.id)
                    if isinstance(d, ast.Call):
                        fn = d.func
                        if (isinstance(fn, ast.Attribute) and fn.attr == "_helper") or \
                                (isinstance(fn, ast.Name) and W.single_def(f.node, fn.id) is not None and norm(W.single_def(f.node, fn.id)) == "self._helper"):
                            vdef = d
            if vdef is None or len(vdef.args) != 3:
                r.undecided(f, a, f"outside value `{others[0]}` not recognised", construct="next_token_weights: outside value")
            else:
                args = [_flat(W.cnorm(f.node, vdef.args[0], a)), norm(vdef.args[1]), norm(vdef.args[2])]
                if args != [f"{I}, {X}", cols, qn]:
                    probs.append(f"outside value is _helper({', '.join(args)})")
        st = [n for n in walk_live(outer[0]) if isinstance(n, ast.Assign) and isinstance(n.targets[0], ast.Subscript) and norm(n.targets[0].slice) == y]
        if len(st) != 1 or norm(st[0].value) != norm(a.target):
            probs.append("the per-symbol total is not stored under the symbol")
        r.add(f, a, not probs, "; ".join(probs), slots=dict(summand=num))
        # ---- _helper
        hc, hq = h.params[2], h.params[3]
        accs = [n for n in walk_live(h.node) if isinstance(n, ast.AugAssign) and isinstance(n.op, ast.Add) and norm(n.target).endswith(".value")]
        if len(accs) != 1:
            r.undecided(h, h.node, "_helper: accumulation into the node value not recognised", construct="_helper accumulation")
        else:
            num, den = W.cfactors(h.node, accs[0].value, accs[0])
            chart = [x for x in num if re.match(rf"^{re.escape(hc)}\[.+\]\.i_chart\[.+\]$", x)]
            ok = len(num) == 2 and len(chart) == 1 and not den
            r.add(h, accs[0], ok, "" if ok else f"_helper: q(J, Y) must accumulate i_chart_J[customer] · q(I, X); got {' · '.join(num)}", slots=dict(summand=num))
        unit = [n for n in walk_live(h.node) if isinstance(n, ast.Subscript) and W.cnorm(h.node, n.value, n) == "self.unit_Ys"]
        r.add(h, unit[0] if unit else h.node, bool(unit), "" if unit else "_helper follows customers whose remainder is longer than one symbol",
              construct="_helper: unit-remainder filter")
        st = [n for n in walk_live(h.node) if isinstance(n, ast.Assign) and isinstance(n.targets[0], ast.Subscript) and W.is_name(n.targets[0].value, hq)]
        if len(st) != 1:
            r.undecided(h, h.node, "_helper: memo store not recognised", construct="_helper memo")
        else:
            ok = norm(st[0].value).endswith(".value") and norm(st[0].targets[0].slice).endswith(".node")
            r.add(h, st[0], ok, "" if ok else "_helper must memoise the finished node's value under the node's own key")
    r.min_instances = 4 * len(files)
    return r


def rule_factor_icky(P):
    r = RuleResult("FACTOR-ICKY", "IncrementalCKY: extend_chart adds r.w·y·z to new[i][X] for (Y, y) over chart[j][i], rules X→Y Z indexed by Y, "
                   "z = new[j][Z]; the preterminal cell is new[k-1][head] += r.w for rules of the last token; next_token_weights "
                   "propagates α[j][Z] += r.w·y·α[i][X] and returns q[w] += r.w·α[k-1][head]; the start cell α[0][S] is seeded with one",
                   "incremental CKY recurrences are well-formed")
    ext = P.func("parse/cky.py::IncrementalCKY.extend_chart")
    ntw = P.func("parse/cky.py::IncrementalCKY.next_token_weights")
    r.looked_at(ext, ntw)
    for f, kind in ((ext, "inside"), (ntw, "outside")):
        accs = [n for n in walk_live(f.node) if isinstance(n, ast.AugAssign) and isinstance(n.op, ast.Add) and len(W.enclosing_loops(n)) >= 3]
        if len(accs) != 1:
            r.undecided(f, f.node, f"{f.name}: binary update not recognised", construct=f"{f.name}: binary update")
            continue
        a = accs[0]
        loops = W.enclosing_loops(a)  # innermost first
        rl, yl = loops[0], loops[1]
        rv = norm(rl.target)
        if not (isinstance(yl.target, ast.Tuple) and len(yl.target.elts) == 2):
            r.undecided(f, a, f"{f.name}: loop over the left child's cell not recognised", construct=f"{f.name}: binary update")
            continue
        Y, y = (norm(e) for e in yl.target.elts)
        chart = f.params[1]
        m = re.match(rf"^{re.escape(chart)}\[(?P<j>.+)\]\[(?P<i>.+)\]\.items\(\)$", W.citer(f.node, yl))
        if m is None or W.citer(f.node, rl) != f"self.r_y_xz[{Y}]":
            r.undecided(f, a, f"{f.name}: iteration space `{W.citer(f.node, yl)}` / `{W.citer(f.node, rl)}` not recognised", construct=f"{f.name}: binary update")
            continue
        j, i = m.group("j"), m.group("i")
        val = a.value
        at = a
        if isinstance(val, ast.Name):
            rd = W.reaching_def(f.node, val.id, a)
            if rd and rd[1] is not None:
                val, at = rd[1], rd[0]
        num, den = W.cfactors(f.node, val, at)
        tgt = W.cnorm(f.node, a.target, a)
        cy = W.cnorm(f.node, ast.parse(y, mode="eval").body, a)
        if kind == "inside":
            want_t = f"new[{i}][{rv}.head]"
            want = sorted([f"{rv}.w", cy, f"new[{j}][{rv}.body[1]]"])
        else:
            want_t = f"α[{j}][{rv}.body[1]]"
            want = sorted([f"{rv}.w", cy, f"α[{i}][{rv}.head]"])
        ok = tgt == want_t and sorted(num) == want and not den
        r.add(f, a, ok, "" if ok else f"{f.name}: `{tgt} += {' · '.join(num)}`; expected `{want_t} += {' · '.join(want)}`", slots=dict(target=tgt, summand=num))
    # preterminal cells
    pre = [n for n in walk_live(ext.node) if isinstance(n, ast.AugAssign) and isinstance(n.op, ast.Add) and len(W.enclosing_loops(n)) == 1
           and W.cnorm(ext.node, n.value, n).endswith(".w")]
    if len(pre) != 1:
        r.undecided(ext, ext.node, "extend_chart: preterminal update not recognised", construct="extend_chart: preterminal cell")
    else:
        a = pre[0]
        lp = W.enclosing_loops(a)[0]
        rv = norm(lp.target)
        pfx = ext.params[2]
        ok = W.cnorm(ext.node, a.target, a) == f"new[len({pfx}) - 1][{rv}.head]" and W.citer(ext.node, lp) == f"self.terminal[{pfx}[len({pfx}) - 1]]"
        r.add(ext, a, ok, "" if ok else f"extend_chart: the preterminal cell must be new[k-1][r.head] += r.w for rules of the last token "
              f"(got `{W.cnorm(ext.node, a.target, a)}` over `{W.citer(ext.node, lp)}`)")
    q = [n for n in walk_live(ntw.node) if isinstance(n, ast.AugAssign) and isinstance(n.op, ast.Add) and len(W.enclosing_loops(n)) == 2
         and not any("range" in norm(x.iter) for x in W.enclosing_loops(n))]
    if len(q) != 1:
        r.undecided(ntw, ntw.node, "next_token_weights: per-token sum not recognised", construct="next_token_weights: per-token sum")
    else:
        a = q[0]
        inner, outer = W.enclosing_loops(a)
        rv, w = norm(inner.target), norm(outer.target)
        num, den = W.cfactors(ntw.node, a.value, a)
        alpha = [x for x in num if x != f"{rv}.w"]
        ok = W.citer(ntw.node, inner) == f"self.terminal[{w}]" and f"{rv}.w" in num and len(num) == 2 and not den and norm(a.target.slice) == w \
            and W.citer(ntw.node, outer) == "self.cfg.V" and re.match(rf"^α\[.+\]\[{re.escape(rv)}\.head\]$", alpha[0]) is not None
        r.add(ntw, a, ok, "" if ok else "next_token_weights: q[w] must be Σ r.w · α[k-1][r.head] over the preterminal rules of w, for every w in V",
              slots=dict(summand=num))
    seed = [n for n in walk_live(ntw.node) if isinstance(n, ast.AugAssign) and norm(n.value).endswith(".one")]
    if len(seed) != 1:
        r.undecided(ntw, ntw.node, "next_token_weights: seed of the outside pass not recognised", construct="next_token_weights: seed")
    else:
        ok = W.cnorm(ntw.node, seed[0].target, seed[0]) == "α[0][self.cfg.S]"
        r.add(ntw, seed[0], ok, "" if ok else "the outside pass must be seeded with α[0][S] = one")
    # base case of the chart: one column whose cell [0][S] holds the nullary weight, addressed like every reader addresses cells
    cc = P.func("parse/cky.py::IncrementalCKY._compute_chart")
    r.looked_at(cc)
    base = [n for n in walk_live(cc.node) if isinstance(n, ast.Assign) and isinstance(n.targets[0], ast.Subscript)
            and any(re.match(r"^0 == len\(\w+\)$|^not \w+$", t) for t in W.cfacts(cc.node, n))]
    if len(base) != 1:
        r.undecided(cc, cc.node, f"_compute_chart: {len(base)} stores under the empty-prefix test", construct="_compute_chart: base case")
    else:
        st = base[0]
        chain = []
        e = st.targets[0]
        while isinstance(e, ast.Subscript):
            chain.append(e.slice)
            e = e.value
        chain.reverse()
        keys = [norm(x) for x in chain]
        if any(isinstance(x, ast.Tuple) for x in chain) or len(chain) != 3:
            r.add(cc, st, False, f"the empty-prefix cell is stored as `{norm(st.targets[0])}` (keys {keys}); every reader addresses cells as chart[k][i][X] "
                  f"(column, start, symbol): the nullary weight of the start symbol is never found, so the empty string weighs zero",
                  construct="_compute_chart: base case")
        else:
            ok = keys == ["0", "0", "self.cfg.S"] and norm(st.value) == "self.nullary"
            if ok:
                r.add(cc, st, True, slots=dict(cell=norm(st.targets[0]), value=norm(st.value)), construct="_compute_chart: base case")
            else:
                r.add(cc, st, False, f"the empty-prefix chart must hold chart[0][0][S] = the nullary weight; got `{first_line(st)}`", construct="_compute_chart: base case")
    r.min_instances = 6
    return r
