"""Agenda order rules: RADIX, DEP-ORDER, ACCUM (C02, C04, C08, C15)."""

from __future__ import annotations

import ast
import re

from ..model import AnalysisError, norm, walk_live, parent, ancestors, first_line
from ..report import RuleResult
from .. import walk as W

EARLEYS = ["parse/earley.py", "parse/earley_rescaled.py"]


# ---------------------------------------------------------------- helpers


def _self_attr(expr, name=None):
    return (isinstance(expr, ast.Attribute) and isinstance(expr.value, ast.Name) and expr.value.id == "self"
            and (name is None or expr.attr == name))


def _find_priority_store(f):
    """The heap store in `_update`: `<heap>[item] = <key>` whose key mentions self.order[...]."""
    hits = []
    for n in walk_live(f.node):
        if isinstance(n, ast.Assign) and len(n.targets) == 1 and isinstance(n.targets[0], ast.Subscript):
            v = W.canon_ast(f.node, n.value, n)
            for s in ast.walk(v):
                if isinstance(s, ast.Subscript) and _self_attr(s.value, "order"):
                    n._canon_value = v
                    hits.append(n)
                    break
    return hits


def _strip_sign(e):
    sign = 1
    while isinstance(e, ast.UnaryOp) and isinstance(e.op, (ast.USub, ast.UAdd)):
        if isinstance(e.op, ast.USub):
            sign = -sign
        e = e.operand
    return sign, e


def parse_key(f, key):
    """key = sign * (span * RADIX + digit)  ->  dict(sign, span, radix, digit) or raise AnalysisError."""
    sign, e = _strip_sign(key)
    terms = W.summands(e)
    if len(terms) != 2:
        raise AnalysisError(f"{f.qual}: agenda key `{norm(key)}` is not of the form ±(span * RADIX + digit)")
    digit = [t for t in terms if isinstance(t, ast.Subscript) and _self_attr(t.value, "order")]
    prod = [t for t in terms if isinstance(t, ast.BinOp) and isinstance(t.op, ast.Mult)]
    if len(digit) == 1 and len(prod) == 1:
        a, b = prod[0].left, prod[0].right
        # which factor is the radix: the one that resolves to an attribute of self
        ra = W.deref(f.node, a)
        rb = W.deref(f.node, b)
        if _self_attr(ra) and not _self_attr(rb):
            radix, span = ra, b
        elif _self_attr(rb) and not _self_attr(ra):
            radix, span = rb, a
        else:
            raise AnalysisError(f"{f.qual}: cannot tell radix from span in `{norm(prod[0])}`")
        return dict(sign=sign, span=span, radix=radix, digit=digit[0], shape="span*RADIX+digit")
    # digit multiplied by the radix instead of the span (swapped code)
    for t in terms:
        if isinstance(t, ast.BinOp) and isinstance(t.op, ast.Mult):
            for x, y in ((t.left, t.right), (t.right, t.left)):
                if isinstance(x, ast.Subscript) and _self_attr(x.value, "order"):
                    other = [u for u in terms if u is not t][0]
                    return dict(sign=sign, span=other, radix=W.deref(f.node, y), digit=x, shape="digit*RADIX+span")
    raise AnalysisError(f"{f.qual}: agenda key `{norm(key)}` is not of the form ±(span * RADIX + digit)")


def _is_max_of_order(e):
    """max(self.order.values())  (also max(..., default=k))"""
    if isinstance(e, ast.Call) and isinstance(e.func, ast.Name) and e.func.id == "max" and len(e.args) == 1:
        a = e.args[0]
        if isinstance(a, ast.Call) and isinstance(a.func, ast.Attribute) and a.func.attr == "values" \
                and _self_attr(a.func.value, "order"):
            return True
        if _self_attr(a, "order"):  # max over keys is not the digit range
            return False
    return False


def radix_offset(expr):
    """Abstract value of the radix definition as  max(order) + c ; returns c or None (unrecognised)."""
    terms = W.summands(expr)
    c = 0
    seen_max = 0
    for t in terms:
        k = W.int_const(t)
        if k is not None:
            c += k
        elif _is_max_of_order(t):
            seen_max += 1
        else:
            return None
    if seen_max != 1:
        return None
    return c


def _init_attr_def(P, cls, attr):
    init = cls.methods.get("__init__")
    if init is None:
        raise AnalysisError(f"{cls}: no __init__")
    defs = []
    for n in walk_live(init.node):
        if isinstance(n, ast.Assign):
            for t in n.targets:
                if _self_attr(t, attr):
                    defs.append(n)
    return init, defs


# ---------------------------------------------------------------- RADIX


def rule_radix(P, files=EARLEYS):
    r = RuleResult(
        "RADIX",
        "the agenda key of each Earley `_update` is ±(span*RADIX + order[X]) with RADIX defined as "
        "max(order.values()) + c, c >= 1, so that the code is injective (no two completed items of a column tie) "
        "and the span is the high digit",
        "tie-freedom of the agenda (schedules quantifier)",
    )
    r.min_instances = len(files)
    for rel in files:
        f = P.func(f"{rel}::Earley._update")
        r.looked_at(f)
        stores = _find_priority_store(f)
        if len(stores) != 1:
            raise AnalysisError(f"{f.qual}: expected exactly one agenda-priority store mentioning self.order[...], "
                                f"found {len(stores)}")
        st = stores[0]
        k = parse_key(f, getattr(st, '_canon_value', st.value))
        cls = f.cls
        init, defs = _init_attr_def(P, cls, k["radix"].attr)
        r.looked_at(init)
        slots = dict(key=norm(st.value), radix=norm(k["radix"]), span=norm(k["span"]), digit=norm(k["digit"]),
                     shape=k["shape"])
        if k["shape"] != "span*RADIX+digit":
            r.add(f, st, False, "the radix multiplies the digit, not the span: the span is no longer the high digit "
                  "so a longer span can be popped before a shorter one", slots=slots)
            continue
        if len(defs) != 1:
            raise AnalysisError(f"{init.qual}: expected one definition of self.{k['radix'].attr}, found {len(defs)}")
        c = radix_offset(defs[0].value)
        slots["radix_def"] = norm(defs[0].value)
        if c is None:
            raise AnalysisError(f"{init.qual}: radix definition `{norm(defs[0].value)}` not of the form "
                                f"max(self.order.values()) + c")
        slots["c"] = c
        # the span must be K - I with K the column position
        span_ok = _span_is_width(f, k["span"])
        slots["span_is_K_minus_I"] = span_ok
        ok = c >= 1 and span_ok
        msg = ""
        if c < 1:
            msg = (f"RADIX = max(order)+{c} does not exceed the largest digit: an item of span d in the top bucket "
                   f"gets the same key as an item of span d+1 in bucket 0, so ties are broken arbitrarily by the heap "
                   f"and a completed item can be popped before all its contributions have arrived")
        elif not span_ok:
            msg = f"the high digit `{norm(k['span'])}` is not the span K - I of the item"
        r.add(init, defs[0], ok, msg, slots=slots,
              witness="rules {N0→a ×3, S→a N0, N0→S N0, S→b, S→a b, S→S, S→S N0 a}, x='abaaa': "
                      "earley_rescaled gives 0.00211, cfg(x) 0.00548 (DESIGN §5 D4)" if c < 1 else None)
    return r


def _span_is_width(f, span):
    """span == K - I where K derefs to <col>.k and I is the parameter named in the item tuple."""
    e = span
    if not (isinstance(e, ast.BinOp) and isinstance(e.op, ast.Sub)):
        return False
    k = W.deref(f.node, e.left)
    i = e.right
    if not (isinstance(k, ast.Attribute) and k.attr == "k"):
        return False
    return isinstance(i, ast.Name) and i.id in f.params


# ---------------------------------------------------------------- DEP-ORDER


def _graph_edge_orientation(f):
    """For a unary/dependency graph builder: orientation of `A[x, y] (+)= ...` stores.
    Returns list of (stmt, 'head->body' | 'body->head' | '?')."""
    out = []
    for n in walk_live(f.node):
        tgt = None
        if isinstance(n, ast.AugAssign):
            tgt = n.target
        elif isinstance(n, ast.Assign) and len(n.targets) == 1:
            tgt = n.targets[0]
        if tgt is None or not isinstance(tgt, ast.Subscript):
            continue
        sl = tgt.slice
        if not (isinstance(sl, ast.Tuple) and len(sl.elts) == 2):
            continue
        a, b = (_side(f, x) for x in sl.elts)
        if a == "head" and b == "body":
            out.append((n, "head->body"))
        elif a == "body" and b == "head":
            out.append((n, "body->head"))
        else:
            out.append((n, "?"))
    return out


def _side(f, e):
    s = norm(e)
    if s.endswith(".head"):
        return "head"
    if ".body" in s:
        return "body"
    # loop variable ranging over r.body
    if isinstance(e, ast.Name):
        for a in W.enclosing_loops(e):
            if isinstance(a, ast.For) and isinstance(a.target, ast.Name) and a.target.id == e.id \
                    and ".body" in norm(a.iter):
                return "body"
    return "?"


def _scc_successor_side(P):
    """linear.py::WeightedGraph._blocks -> 'incoming' | 'outgoing' (the adjacency handed to scc_decomposition),
    after checking that __setitem__ files (i, j) as incoming[j] ∋ i and outgoing[i] ∋ j."""
    blocks = P.func("linear.py::WeightedGraph._blocks")
    calls = W.calls_named(blocks.node, "scc_decomposition")
    if len(calls) != 1 or not calls[0].args:
        raise AnalysisError("linear.py::WeightedGraph._blocks: expected one scc_decomposition(succ, roots) call")
    a0 = calls[0].args[0]
    side = None
    for n in ast.walk(a0):
        if isinstance(n, ast.Attribute) and n.attr in ("incoming", "outgoing") and _self_attr(n):
            side = n.attr
    if side is None:
        raise AnalysisError(f"linear.py::_blocks: successor function `{norm(a0)}` not recognised")
    # __setitem__ convention
    si = P.func("linear.py::WeightedGraph.__setitem__")
    conv = {}
    for n in walk_live(si.node):
        if isinstance(n, ast.Call) and isinstance(n.func, ast.Attribute) and n.func.attr == "add":
            tgt = n.func.value
            if isinstance(tgt, ast.Subscript) and _self_attr(tgt.value) and tgt.value.attr in ("incoming", "outgoing"):
                conv[tgt.value.attr] = (norm(tgt.slice), norm(n.args[0]))
    # item unpack: i, j = item
    names = None
    for n in walk_live(si.node):
        if isinstance(n, ast.Assign) and isinstance(n.targets[0], ast.Tuple) and len(n.targets[0].elts) == 2 \
                and isinstance(n.value, ast.Name) and n.value.id == si.params[1]:
            names = tuple(norm(e) for e in n.targets[0].elts)
    if names is None or set(conv) != {"incoming", "outgoing"}:
        raise AnalysisError("linear.py::WeightedGraph.__setitem__: adjacency bookkeeping not recognised")
    i, j = names
    conv_ok = conv["incoming"] == (j, i) and conv["outgoing"] == (i, j)
    return blocks, calls[0], side, si, conv_ok, conv


def _tarjan_emits_successors_first(P):
    """scc_decomposition yields a component only after the components reachable through `successors`
    (post-order): structural check that the `yield frozenset` comes after the loop over successors(v)."""
    f = P.func("linear.py::scc_decomposition")
    dfs = P.funcs.get("linear.py::scc_decomposition.dfs")
    if dfs is None:
        raise AnalysisError("linear.py::scc_decomposition.dfs not found (Tarjan shape changed)")
    loop = None
    for n in dfs.node.body:
        if isinstance(n, ast.For) and isinstance(n.iter, ast.Call) and W.call_name(n.iter) == f.params[0]:
            loop = n
    if loop is None:
        raise AnalysisError("scc_decomposition.dfs: loop over successors(v) not found")
    ys = [n for n in walk_live(dfs.node) if isinstance(n, ast.Yield)]
    if not ys:
        raise AnalysisError("scc_decomposition.dfs: no component yield")
    return f, dfs, all(W.pos(y) > W.end_pos(loop) for y in ys)


def rule_dep_order(P, which=("earley", "agenda", "solvers")):
    r = RuleResult(
        "DEP-ORDER",
        "dependencies are processed before dependents: orientation of the graph built, the adjacency handed to the "
        "SCC decomposition (post-order Tarjan), the direction of iteration / sign of the heap key and the neighbour "
        "side the consumer reads must compose to 'dependency first'",
        "dependency order of agendas and block solvers",
    )
    blocks, scc_call, side, setitem, conv_ok, conv = _scc_successor_side(P)
    tarjan, dfs, post = _tarjan_emits_successors_first(P)
    r.looked_at(blocks, setitem, tarjan, dfs)
    r.add(setitem, setitem.node, conv_ok,
          "" if conv_ok else f"WeightedGraph.__setitem__ files edge (i, j) inconsistently: {conv}",
          slots=dict(convention=str(conv)), construct="adjacency bookkeeping of WeightedGraph.__setitem__")
    r.add(dfs, dfs.node, post, "" if post else "a component is yielded before its successors were explored",
          construct="scc_decomposition.dfs yields in post-order")
    # `side` = adjacency explored by Tarjan; components reachable through it are emitted first (lower index)
    # incoming -> predecessors first; outgoing -> successors first
    first = "pred" if side == "incoming" else "succ"

    def emitted_first(orientation):
        # orientation 'x->y': edge from x to y. pred-first => x (source) gets the lower index
        src, dst = orientation.split("->")
        return src if first == "pred" else dst

    if "earley" in which:
        for rel in EARLEYS:
            init = P.func(f"{rel}::Earley.__init__")
            upd = P.func(f"{rel}::Earley._update")
            r.looked_at(init, upd)
            cls = init.cls
            _, defs = _init_attr_def(P, cls, "order")
            if len(defs) != 1:
                raise AnalysisError(f"{init.qual}: expected one definition of self.order")
            base, parts = W.full_chain(init.node, defs[0].value, at=defs[0])
            if not parts or parts[-1] != "buckets" or len(parts) < 2:
                raise AnalysisError(f"{init.qual}: self.order = `{norm(defs[0].value)}` is not <graph builder>().buckets")
            builder = parts[-2].rstrip("()")
            bf = P.func(f"cfg.py::CFG.{builder}")
            r.looked_at(bf)
            edges = _graph_edge_orientation(bf)
            if len(edges) != 1 or edges[0][1] == "?":
                raise AnalysisError(f"{bf.qual}: expected one edge store of recognised orientation, got "
                                    f"{[(norm(s), o) for s, o in edges]}")
            # the order must come from the graph of *unary* rules only: buckets are SCC indices, and the SCCs of a graph that also
            # has the edges of longer rules merge mutually recursive symbols, which then tie although a unary rule links them
            unary_only = any(re.match(r"^1 == len\(\w+\.body\)$", t) for t in W.cfacts(bf.node, edges[0][0]))
            if not unary_only:
                r.add(init, defs[0], False, f"`{first_line(defs[0])}`: {builder} also has the edges of non-unary rules; its SCC buckets give mutually "
                      f"recursive nonterminals the same number, so a unary rule X→Y inside such a component is not ordered and X can be "
                      f"popped before Y's contribution arrives", slots=dict(builder=builder), construct=f"{rel}: source of the agenda order")
                continue
            orient = edges[0][1]
            low = emitted_first(orient)  # side with the lower bucket index
            stores = _find_priority_store(upd)
            if len(stores) != 1:
                raise AnalysisError(f"{upd.qual}: agenda-priority store not found")
            k = parse_key(upd, getattr(stores[0], '_canon_value', stores[0].value))
            heap = _heap_kind(P, upd, stores[0], init)
            # max-heap + negative key  => smaller code first => lower bucket first
            lower_first = (heap == "max" and k["sign"] < 0) or (heap == "min" and k["sign"] > 0)
            popped_first = low if lower_first else ("head" if low == "body" else "body")
            ok = popped_first == "body"
            r.add(init, defs[0], ok,
                  "" if ok else
                  f"unary rule X→Y: the completed item for the head X is popped before the body Y (graph {orient}, "
                  f"Tarjan over `{side}`, heap {heap}, key sign {k['sign']:+d}); X's value is then consumed by its "
                  f"customers before Y's contribution is added",
                  slots=dict(builder=builder, orientation=orient, scc_adjacency=side, heap=heap, key_sign=k["sign"],
                             popped_first=popped_first, small_span_first=lower_first))
            if not lower_first:
                # also wrong for spans
                pass
    if "agenda" in which:
        ag = P.func("cfg.py::CFG.agenda")
        dg = P.func("cfg.py::CFG.dependency_graph")
        r.looked_at(ag, dg)
        edges = [e for e in _graph_edge_orientation(dg)]
        if len(edges) != 1 or edges[0][1] == "?":
            raise AnalysisError(f"{dg.qual}: edge store not recognised: {[(norm(s), o) for s, o in edges]}")
        orient = edges[0][1]
        low = emitted_first(orient)
        direction, loopnode = _agenda_direction(ag)
        processed_first = low if direction == "up" else ("head" if low == "body" else "body")
        ok = processed_first == "body"
        r.add(ag, loopnode, ok,
              "" if ok else "blocks are processed heads-first: a nonterminal's block is drained before the blocks of "
                            "the symbols it depends on have converged, and is never revisited",
              slots=dict(orientation=orient, scc_adjacency=side, block_iteration=direction,
                         processed_first=processed_first),
              construct="block iteration of CFG.agenda")
    if "solvers" in which:
        for name, want_side in (("solve_left", "incoming"), ("solve_right", "outgoing")):
            f = P.func(f"linear.py::WeightedGraph.{name}")
            r.looked_at(f)
            loop = None
            for n in f.node.body:
                if isinstance(n, ast.For) and "Blocks" in norm(n.iter):
                    loop = n
            if loop is None:
                raise AnalysisError(f"{f.qual}: loop over self.Blocks not found")
            rev = isinstance(loop.iter, ast.Call) and W.call_name(loop.iter) == "reversed"
            # which blocks come first in iteration: pred-first order, reversed => succ first
            iter_first = first if not rev else ("succ" if first == "pred" else "pred")
            reads = set()
            for n in walk_live(loop):
                if isinstance(n, ast.Subscript):
                    base = W.canon_ast(f.node, n.value, n)  # through local aliases (`incoming = self.incoming`)
                    if _self_attr(base) and base.attr in ("incoming", "outgoing"):
                        reads.add(base.attr)
            if len(reads) != 1:
                raise AnalysisError(f"{f.qual}: neighbour side read in the block loop not recognised: {reads}")
            rd = reads.pop()
            need = "pred" if rd == "incoming" else "succ"
            ok = (iter_first == need) and rd == want_side
            # operand order of the cross-block product: left solver sol[i]*E[i,j]; right solver E[j,k]*sol[k]
            r.add(f, loop, ok,
                  "" if ok else f"{name} reads sol[] of its `{rd}` neighbours but blocks are iterated "
                                f"{iter_first}-first, so those entries are still zero when read",
                  slots=dict(scc_adjacency=side, reversed=rev, iterated_first=iter_first, reads=rd),
                  construct=f"for ... in {norm(loop.iter)}")
    r.min_instances = 2 + (2 if "earley" in which else 0) + (1 if "agenda" in which else 0) + (2 if "solvers" in which else 0)
    return r


def _heap_kind(P, upd, store, init):
    """'max' if the heap receiving the priority is a LocatorMaxHeap (pop returns the largest), 'min' for a
    LocatorMinHeap / heapq; AnalysisError otherwise."""
    names = set()
    for m in (upd.module,):
        for n in ast.walk(m.tree):
            if isinstance(n, ast.Call):
                nm = W.call_name(n)
                if nm and "Heap" in nm:
                    names.add(nm)
    if names == {"LocatorMaxHeap"}:
        return "max"
    if names and all("Min" in x for x in names):
        return "min"
    raise AnalysisError(f"{upd.module.rel}: heap implementation not recognised: {sorted(names)}")


def _agenda_direction(ag):
    """CFG.agenda walks block index `b`: initialised to len(blocks) and decremented ('down'), or from 0 up."""
    init = None
    step = None
    loop = None
    for n in walk_live(ag.node):
        if isinstance(n, ast.While) and isinstance(n.test, ast.Compare) and isinstance(n.test.left, ast.Name):
            loop = n
    if loop is None:
        raise AnalysisError("cfg.py::CFG.agenda: block loop `while b ...` not found")
    var = loop.test.left.id
    for st, val in W.assignments_to(ag.node, var):
        if isinstance(st, ast.Assign):
            init = val
        elif isinstance(st, ast.AugAssign):
            step = st
    if init is None or step is None:
        raise AnalysisError("cfg.py::CFG.agenda: block counter init/step not recognised")
    down = isinstance(step.op, ast.Sub) and "len" in norm(init) and isinstance(loop.test.ops[0], (ast.GtE, ast.Gt))
    up = isinstance(step.op, ast.Add) and W.int_const(init) == 0
    if not (down or up):
        raise AnalysisError(f"cfg.py::CFG.agenda: block iteration `{norm(init)}` / `{norm(step)}` not recognised")
    # pred-first emission gives the lower index to predecessors; iterating 'down' processes high indices first
    return ("down" if down else "up"), loop


# ---------------------------------------------------------------- PIPE-EARLEYPREP


def rule_earley_prep(P, files=EARLEYS):
    r = RuleResult(
        "PIPE-EARLEYPREP",
        "each Earley.__init__ preprocesses the grammar with nullaryremove ≺ unarycycleremove before computing "
        "`order` from the same grammar object (SCC buckets are singletons only then, and same-column dependencies "
        "are unary only after null removal)",
        "preconditions of the agenda argument",
    )
    r.min_instances = len(files)
    for rel in files:
        init = P.func(f"{rel}::Earley.__init__")
        r.looked_at(init)
        # the grammar stored in self.cfg
        _, defs = _init_attr_def(P, init.cls, "cfg")
        if len(defs) != 1:
            raise AnalysisError(f"{init.qual}: expected one `self.cfg = ...`")
        base, parts = W.full_chain(init.node, defs[0].value, at=defs[0])
        names = [p.rstrip("()") for p in parts]
        ok = "nullaryremove" in names and "unarycycleremove" in names and \
            names.index("nullaryremove") < names.index("unarycycleremove")
        # order must be computed from the preprocessed grammar
        _, odefs = _init_attr_def(P, init.cls, "order")
        obase, oparts = W.full_chain(init.node, odefs[0].value, at=odefs[0]) if odefs else (None, [])
        onames = [p.rstrip("()") for p in oparts]
        ok2 = "unarycycleremove" in onames or (onames[:1] == ["cfg"] and _self_attr(W.chain_of(odefs[0].value)[0]) is False
                                               and isinstance(obase, ast.Name) and obase.id == "self")
        # accept `self.cfg.<builder>().buckets` as well
        if not ok2 and odefs:
            b0, p0 = W.chain_of(odefs[0].value)
            ok2 = isinstance(b0, ast.Name) and b0.id == "self" and p0[:1] == ["cfg"]
        msg = ""
        if not ok:
            msg = f"preprocessing chain is {names}: nullaryremove must precede unarycycleremove"
        elif not ok2:
            msg = f"`order` is computed from `{norm(odefs[0].value)}`, not from the preprocessed grammar"
        # the trim option of unarycycleremove / binarize are free; renumber must come after
        r.add(init, defs[0], ok and ok2, msg, slots=dict(chain=names, order_chain=onames))
    return r


# ---------------------------------------------------------------- ACCUM


def rule_accum(P, files=EARLEYS):
    r = RuleResult(
        "ACCUM",
        "in each Earley `_update`, a chart cell is initialised with the incoming value when absent (`was is None`) "
        "and otherwise becomes was + value; the completed-item branch enqueues exactly on first derivation",
        "chart cells accumulate the semiring sum of all contributions",
    )
    for rel in files:
        f = P.func(f"{rel}::Earley._update")
        r.looked_at(f)
        vparam = f.params[-1]
        n_sites = 0
        for n in walk_live(f.node):
            if not (isinstance(n, ast.Assign) and len(n.targets) == 1 and isinstance(n.targets[0], ast.Subscript)):
                continue
            tgt = n.targets[0]
            ctv = W.cnorm(f.node, tgt.value, n)
            if not (ctv.endswith(".c_chart") or ctv.endswith(".i_chart")):
                continue
            n_sites += 1
            facts = W.guard_facts(n)
            was_none = None
            for ft in facts:
                c = W.fact_cmp(ft)
                if c and isinstance(c[2], ast.Constant) and c[2].value is None and isinstance(c[0], ast.Name):
                    wname = c[0].id
                    if c[1] is ast.Is:
                        was_none = (True, wname)
                    elif c[1] is ast.IsNot:
                        was_none = (False, wname)
            if was_none is None:
                raise AnalysisError(f"{f.qual}: chart store `{norm(n)}` is not under a `was is None` test")
            first, wname = was_none
            # `was` must be the .get of the same cell
            rd = W.reaching_def(f.node, wname, n)
            wdef = rd[1] if rd is not None else None
            same_cell = (wdef is not None and isinstance(wdef, ast.Call) and W.call_name(wdef) == "get"
                         and W.cnorm(f.node, W.receiver(wdef), n) == ctv and norm(wdef.args[0]) == norm(tgt.slice)
                         and len(wdef.args) == 1)
            if first:
                ok = W.is_name(n.value, vparam) and same_cell
                msg = "" if ok else "first derivation must store the incoming value in the cell that was tested"
            else:
                terms = sorted(norm(t) for t in W.summands(n.value))
                ok = terms == sorted([wname, vparam]) and same_cell
                msg = "" if ok else (f"an existing cell must become {wname} + {vparam}; `{norm(n.value)}` loses or "
                                     f"duplicates a contribution")
            r.add(f, n, ok, msg, slots=dict(first_derivation=first, cell=norm(tgt), was=norm(wdef) if wdef is not None else None))
        # enqueue only on first derivation
        for st in _find_priority_store(f):
            facts = W.guard_facts(st)
            ok = any((c := W.fact_cmp(ft)) and c[1] is ast.Is and isinstance(c[2], ast.Constant) and c[2].value is None
                     for ft in facts)
            r.add(f, st, ok, "" if ok else "the completed item is (re-)enqueued outside the first-derivation branch")
        if n_sites < 4:
            raise AnalysisError(f"{f.qual}: expected 4 chart-cell stores, found {n_sites}")
    r.min_instances = 5 * len(files)
    return r


def rule_tol_site(P):
    r = RuleResult("TOL-SITE", "CFG.agenda uses its tolerance only to compare the old and the new total of the popped symbol "
                   "(R.metric(old[u], new) <= tol): contributions are merged in the change chart before the test, never dropped one by "
                   "one (many small contributions add up)", "the tolerance is applied to merged updates only")
    f = P.func("cfg.py::CFG.agenda")
    r.looked_at(f)
    tol = "tol"
    if tol not in f.params:
        r.undecided(f, f.node, "tolerance parameter not found", construct="agenda: tolerance")
        return r
    uses = []
    for g in [f] + [h for h in P.funcs.values() if h.outer is f]:
        for n in walk_live(g.node):
            if isinstance(n, ast.Name) and n.id == tol and isinstance(n.ctx, ast.Load):
                uses.append((g, n))
    if not uses:
        r.undecided(f, f.node, "tolerance never used", construct="agenda: tolerance")
    for g, n in uses:
        cmp = next((a for a in ancestors(n) if isinstance(a, ast.Compare)), None)
        ok = False
        if cmp is not None and g is f:
            other = cmp.left if cmp.comparators[0] is n else cmp.comparators[0]
            txt = W.cnorm(f.node, other, cmp)
            m = isinstance(other, ast.Call) and W.call_name(other) == "metric" and len(other.args) == 2
            if m:
                a0, a1 = (W.cnorm(f.node, x, cmp) for x in other.args)
                # old[u] versus old[u] + v
                ok = ("old[" in a0 and "+" in a1) or ("old[" in a1 and "+" in a0)
        r.add(g, cmp if cmp is not None else n, ok, "" if ok else f"the tolerance is applied at `{first_line(W.stmt_of(n))}`, not to the merged update of the popped "
              f"symbol: individually negligible contributions (25 000 rules of weight 4e-13) are dropped although their sum is not")
    # structural decisions (is this symbol nullable / useless / is this weight the zero) are exact tests: a distance appears only in the
    # convergence tests of the two evaluators and in comparison helpers
    ALLOWED = ("cfg.py::CFG.agenda", "cfg.py::CFG.naive_bottom_up", "cfg.py::CFG.assert_equal", "cfg.py::CFG.assert_equivalent")
    n_metric = 0
    for q in sorted(P.funcs):
        g = P.funcs[q]
        if q.startswith(("semiring.py::", "chart.py::", "wfsa/field_wfsa.py::")):
            continue
        for n in walk_live(g.node):
            if isinstance(n, ast.Call) and isinstance(n.func, ast.Attribute) and n.func.attr == "metric" and W.enclosing_function(n) is g.node:
                n_metric += 1
                ok = q.startswith(ALLOWED) or g.name.startswith(("assert_", "_approx", "approx"))
                r.add(g, n, ok, "" if ok else f"`{first_line(W.stmt_of(n))}` decides with a distance instead of an exact test: R.metric(x, zero) is nan for the zero of "
                      f"the tropical and log types (-inf - -inf), and a small non-zero weight is not the zero", slots=dict(call=norm(n)),
                      construct=f"{g.name}: {norm(n)}")
    if n_metric < 2:
        r.undecided(f, f.node, "the evaluators' convergence tests (R.metric) were not found", construct="TOL-SITE: metric call sites")
    r.min_instances = 3
    return r
