"""Namespace rules NS-TOCFG, NS-BYTES, NS-CHARCFG, NS-RENUMBER and LOOPPAIR (C06, C17, C18, C19)."""

from __future__ import annotations

import ast
import re

from ..model import AnalysisError, norm, walk_live, parent, ancestors, first_line
from ..report import RuleResult
from .. import walk as W


def _adds(f, names=("add",), into_nested=False):
    return [n for n in walk_live(f.node, into_nested=into_nested)
            if isinstance(n, ast.Call) and isinstance(n.func, ast.Attribute) and n.func.attr in names]


# ---------------------------------------------------------------- NS-TOCFG


def rule_ns_tocfg(P):
    r = RuleResult("NS-TOCFG", "WFSA.to_cfg puts states (as nonterminals) and arc labels (as terminals) into the grammar's single symbol "
                   "namespace: it must wrap one side in a constructor the other never uses, or be dominated by a disjointness test "
                   "(isdisjoint / &) that renames or raises; the library's own from_string names states by prefixes of the string, "
                   "i.e. by alphabet symbols", "states and labels never collide in the converted grammar")
    f = P.func("wfsa/base.py::WFSA.to_cfg")
    r.looked_at(f)
    guarded = False
    for n in walk_live(f.node):
        if isinstance(n, ast.Call) and W.call_name(n) == "isdisjoint":
            guarded = True
        if isinstance(n, ast.BinOp) and isinstance(n.op, ast.BitAnd) and ("states" in norm(n)) and ("alphabet" in norm(n) or "V" in norm(n)):
            guarded = True
    renamed = any(isinstance(n, ast.Assign) and any(W.is_name(t, "self") for t in n.targets) and isinstance(n.value, ast.Call)
                  and W.call_name(n.value) in ("rename", "renumber") for n in walk_live(f.node))
    raises = any(isinstance(n, ast.Raise) for n in walk_live(f.node))
    # the rename guard rebinds `self`: state-bearing values read from the machine *before* it (I, F, arcs, states, start, stop)
    # still name the old states and must not feed rules emitted after it
    rebinds = [n for n in walk_live(f.node) if isinstance(n, ast.Assign) and any(W.is_name(t, "self") for t in n.targets)]
    STATEFUL = ("I", "F", "arcs", "states", "start", "stop", "delta", "Delta", "G")
    for rb in rebinds:
        for n in walk_live(f.node):
            if isinstance(n, ast.Assign) and n is not rb and W.pos(n) < W.pos(rb) and not any(W.is_name(t, "self") for t in n.targets):
                reads = [x for x in ast.walk(n.value) if isinstance(x, ast.Attribute) and W.is_name(x.value, "self") and x.attr in STATEFUL]
                if not reads:
                    continue
                tnames = {x.id for t in n.targets for x in ast.walk(t) if isinstance(x, ast.Name)}
                late = [x for x in walk_live(f.node) if isinstance(x, ast.Name) and x.id in tnames and isinstance(x.ctx, ast.Load) and W.pos(x) > W.end_pos(rb)]
                if late:
                    r.add(f, n, False, f"`{first_line(n)}` reads {', '.join(sorted({'self.' + x.attr for x in reads}))} before `{first_line(rb)}` "
                          f"replaces the machine by its renamed copy, and `{late[0].id}` is used after it (line {late[0].lineno}): those states "
                          f"still carry the old names while the arc rules use the new ones, so the start/final rules no longer connect")
    if rebinds:
        r.add(f, rebinds[0], True, slots=dict(rebinding=first_line(rebinds[0])), nontrivial=False)
    # wrapped state symbols at every add site
    sites = [c for c in _adds(f) if len(c.args) >= 2]
    if len(sites) < 8:
        r.undecided(f, f.node, f"expected 8 rule-emitting sites (4 per recursion scheme), found {len(sites)}", construct="to_cfg: rule-emitting sites")
        return r
    wrapped = all(all(isinstance(a, (ast.Tuple, ast.Call)) or (W.is_name(a, "S")) or _is_label(f, a) for a in c.args[1:]) for c in sites)
    ok = wrapped or (guarded and (renamed or raises))
    r.add(f, f.node, ok, "" if ok else "state names are used as nonterminals next to the alphabet's terminals with no wrapping and no "
          "disjointness check: a state named like a symbol is classified as a terminal and its rules are unusable",
          slots=dict(disjointness_test=guarded, renames=renamed, raises=raises, states_wrapped=wrapped),
          construct="to_cfg: states vs. alphabet namespace",
          witness="WFSA.from_string('ab', Float).to_cfg()('ab') == 0.0 (the automaton gives 1.0) (DESIGN §5 D3)" if not ok else None)
    # left / right variants mirror each other
    right = [c for c in sites if any(ft.pol and "'right'" in norm(ft.test) for ft in W.guard_facts(c))]
    left = [c for c in sites if c not in right]
    ok = len(right) == len(left) == 4
    if ok:
        def sig(c):
            loop = [a for a in ancestors(c) if isinstance(a, ast.For)]
            it = norm(loop[0].iter) if loop else ""
            return (it, len(c.args))
        rs, ls = sorted(sig(c) for c in right), sorted(sig(c) for c in left)
        swap = {"self.I": "self.F", "self.F": "self.I", "self.arcs()": "self.arcs()"}
        ok = sorted((swap.get(a, a), b) for a, b in rs) == ls
        # arc rules: right  i → a j ;  left  j → i a
        for c in right + left:
            loop = [a for a in ancestors(c) if isinstance(a, ast.For)]
            if loop and norm(loop[0].iter) == "self.arcs()" and len(c.args) == 4:
                i, a, j, w = (norm(e) for e in loop[0].target.elts)
                got = [norm(x) for x in c.args]
                want = [w, i, a, j] if c in right else [w, j, i, a]
                ok = ok and got == want
            if loop and norm(loop[0].iter) == "self.arcs()" and len(c.args) == 3:
                i, a, j, w = (norm(e) for e in loop[0].target.elts)
                got = [norm(x) for x in c.args]
                want = [w, i, j] if c in right else [w, j, i]
                ok = ok and got == want
    r.add(f, f.node, ok, "" if ok else "the left- and right-recursive variants are not mirror images (initial↔final, head/body swapped)",
          construct="to_cfg: left/right variants mirror each other")
    r.min_instances = 2
    return r


def _is_label(f, a):
    return isinstance(a, ast.Name) and a.id in ("a",)


# ---------------------------------------------------------------- NS-BYTES


def rule_ns_bytes(P):
    r = RuleResult("NS-BYTES", "state names introduced by WFSA.to_bytes for multi-byte chains come from a generator whose counter outlives "
                   "the call (_gen_nt-style) or embed the arc identity injectively; a counter local to the call restarts at 0 for every "
                   "converted machine, and _char_cfg pours several converted machines into one grammar",
                   "chain states of different converted automata never coincide")
    f = P.func("wfsa/base.py::WFSA.to_bytes")
    r.looked_at(f)
    # the producer of fresh states: calls whose result becomes the target of add_arc's 3rd argument
    producers = set()
    for n in walk_live(f.node):
        if isinstance(n, ast.Assign) and isinstance(n.value, ast.Call) and isinstance(n.targets[0], ast.Name):
            nm = n.targets[0].id
            used_as_state = any(isinstance(c, ast.Call) and W.call_name(c) == "add_arc" and any(W.is_name(a, nm) for a in (c.args[0], c.args[2]))
                                for c in walk_live(f.node))
            if used_as_state:
                producers.add(W.call_name(n.value))
    if not producers:
        raise AnalysisError("wfsa/base.py::WFSA.to_bytes: producer of chain states not found")
    for pn in sorted(producers):
        g = P.funcs.get(f"{f.qual}.{pn}")
        ok, why = False, ""
        if pn == "_gen_nt":
            ok = True
        elif g is not None:
            r.looked_at(g)
            uses_global = any(isinstance(n, ast.Call) and W.call_name(n) == "_gen_nt" for n in walk_live(g.node))
            nonlocals = [x for n in walk_live(g.node) if isinstance(n, ast.Nonlocal) for x in n.names]
            local_counter = [x for x in nonlocals if any(st for st, v in W.assignments_to(f.node, x) if v is not None and W.int_const(v) is not None)]
            if uses_global and not local_counter:
                ok = True
            elif local_counter:
                why = (f"`{pn}` names chain states from the counter `{local_counter[0]}` that is initialised inside to_bytes: every "
                       f"converted automaton produces `_bytes0`, `_bytes1`, …, and their grammars are merged by name")
            else:
                # names built from the producer's arguments: injective only if they embed the whole arc identity
                # (source, label, target) and the position in the chain
                rets = [n for n in walk_live(g.node) if isinstance(n, ast.Return) and n.value is not None]
                used = {x.id for n in rets for x in ast.walk(n.value) if isinstance(x, ast.Name)} & set(g.params)
                calls = [n for n in walk_live(f.node) if isinstance(n, ast.Call) and W.call_name(n) == pn]
                loop = next((n for n in walk_live(f.node) if isinstance(n, ast.For) and norm(n.iter) == "self.arcs()" and isinstance(n.target, ast.Tuple)), None)
                if not rets or not calls or loop is None or len(loop.target.elts) != 4:
                    raise AnalysisError(f"{g.qual}: fresh-state scheme not recognised")
                i_, a_, j_, w_ = (norm(e) for e in loop.target.elts)
                passed = set()
                for c in calls:
                    for p_, arg in zip(g.params, c.args):
                        if p_ in used:
                            passed.update(x.id for x in ast.walk(arg) if isinstance(x, ast.Name))
                missing = [nm for nm in (i_, a_, j_) if nm not in passed]
                if missing:
                    why = (f"`{pn}` derives chain-state names from {sorted(passed)} only: without {missing} two arcs that share the rest "
                           f"(parallel arcs to different targets, or arcs of another converted automaton merged by name) get the same chain")
                else:
                    ok = True
        else:
            raise AnalysisError(f"to_bytes: state producer `{pn}` not resolved")
        r.add(g or f, (g or f).node, ok, why, slots=dict(producer=pn), construct=f"to_bytes: chain states from {pn}()",
              witness="LarkStuff('start: A B\\nA: \"é\"\\nB: \"ü\"').byte_cfg() accepts 'üü' (DESIGN §5 D13)" if not ok else None)
    r.min_instances = 1
    return r


# ---------------------------------------------------------------- NS-CHARCFG


def rule_ns_charcfg(P):
    r = RuleResult("NS-CHARCFG", "in LarkStuff._char_cfg every head/body symbol poured into the character grammar is f(·)-wrapped, or comes "
                   "from to_cfg (start symbol f-wrapped) of an automaton whose states were all named through the name= wrapper; the "
                   "final `N ∩ V = ∅` assertion is kept", "names of terminals and nonterminals never collide")
    f = P.func("lark_interface.py::LarkStuff._char_cfg")
    r.looked_at(f)
    wrap = None
    for g in P.funcs.values():
        if g.outer is f and any(isinstance(n, ast.Return) and isinstance(n.value, ast.JoinedStr) for n in walk_live(g.node)):
            wrap = g
    if wrap is None:
        raise AnalysisError("_char_cfg: renaming function (returns an f-string over an Integerizer) not found")
    fname = wrap.name
    res = None
    for n in walk_live(f.node):
        if isinstance(n, ast.Return) and isinstance(n.value, ast.Name):
            res = n.value.id
    if res is None:
        raise AnalysisError("_char_cfg: result variable not found")

    def wrapped(e, at):
        if isinstance(e, ast.Call) and W.is_name(e.func, fname):
            return True
        if isinstance(e, ast.Starred):
            return wrapped(e.value, at)
        if isinstance(e, (ast.GeneratorExp, ast.ListComp)):
            return wrapped(e.elt, at)
        if isinstance(e, ast.Name):
            rd = W.reaching_def(f.node, e.id, at)
            return rd is not None and rd[1] is not None and wrapped(rd[1], rd[0])
        return False

    def from_named_fsa(e, at):
        """r.head / *r.body with r ranging over G = fsa.to_cfg(S=<wrapped>) and fsa named through name=lambda…: f(…)"""
        txt = norm(e.value if isinstance(e, ast.Starred) else e)
        if not (txt.endswith(".head") or txt.endswith(".body")):
            return False
        rv = txt.rsplit(".", 1)[0]
        loop = next((a for a in ancestors(at) if isinstance(a, ast.For) and W.is_name(a.target, rv)), None)
        if loop is None or not isinstance(loop.iter, ast.Name):
            return False
        rd = W.reaching_def(f.node, loop.iter.id, loop)
        if rd is None or rd[1] is None or not (isinstance(rd[1], ast.Call) and W.call_name(rd[1]) == "to_cfg"):
            return False
        s_kw = next((k.value for k in rd[1].keywords if k.arg == "S"), None)
        if s_kw is None or not wrapped(s_kw, rd[0]):
            return False
        fsa = W.receiver(rd[1])
        # fsa = interegular_to_wfsa(..., name=lambda x, t=...: f((t, x)), ...)  [ .to_bytes() ]
        defs = [v for st, v in W.assignments_to(f.node, fsa.id) if v is not None] if isinstance(fsa, ast.Name) else []
        okn = False
        for v in defs:
            if isinstance(v, ast.Call) and W.call_name(v) == "interegular_to_wfsa":
                nk = next((k.value for k in v.keywords if k.arg == "name"), None)
                okn = isinstance(nk, ast.Lambda) and isinstance(nk.body, ast.Call) and W.is_name(nk.body.func, fname)
            elif isinstance(v, ast.Call) and W.call_name(v) == "to_bytes" and W.is_name(W.receiver(v), fsa.id):
                continue
            else:
                return False
        return okn

    sites = [c for c in _adds(f) if W.is_name(c.func.value, res) and len(c.args) >= 2]
    if len(sites) < 4:
        raise AnalysisError("_char_cfg: expected at least 4 add sites")
    for c in sites:
        bad = [norm(a) for a in c.args[1:] if not (wrapped(a, c) or from_named_fsa(a, c))]
        ok = not bad
        r.add(f, c, ok, "" if ok else f"`{first_line(c)}`: symbol(s) {bad} enter the character grammar without going through f(·) / the "
              f"name= wrapper: a rule name, terminal name or automaton state can coincide with another symbol", slots=dict(unwrapped=bad))
    asserts = [n for n in walk_live(f.node) if isinstance(n, ast.Assert) and f"{res}.N & {res}.V" in norm(n.test)]
    ok = len(asserts) == 1
    r.add(f, asserts[0] if asserts else f.node, ok, "" if ok else "the N ∩ V = ∅ assertion before returning is gone", construct="assert N ∩ V = ∅")
    r.min_instances = 5
    return r


# ---------------------------------------------------------------- NS-RENUMBER


def rule_ns_renumber(P):
    r = RuleResult("NS-RENUMBER", "CFG.renumber maps nonterminals through an injective integerizer offset past every integer terminal "
                   "(i(x) + max_v + 1 with max_v = max of the integer terminals, default 0); rename applies f to the start symbol, to "
                   "every head and to every non-terminal body symbol only", "renumbered nonterminals never collide with integer terminals")
    f = P.func("cfg.py::CFG.renumber")
    r.looked_at(f)
    rets = [n for n in walk_live(f.node) if isinstance(n, ast.Return)]
    ok = False
    slots = {}
    if len(rets) == 1 and isinstance(rets[0].value, ast.Call) and W.call_name(rets[0].value) == "rename" and rets[0].value.args \
            and isinstance(rets[0].value.args[0], ast.Lambda):
        lam = rets[0].value.args[0]
        x = lam.args.args[0].arg
        terms = W.summands(lam.body)
        ints = [W.int_const(t) for t in terms if W.int_const(t) is not None]
        calls = [t for t in terms if isinstance(t, ast.Call) and len(t.args) == 1 and W.is_name(t.args[0], x)]
        names = [t for t in terms if isinstance(t, ast.Name)]
        integ = calls and isinstance(W.single_def(f.node, norm(calls[0].func)), ast.Call) and W.call_name(W.single_def(f.node, norm(calls[0].func))) == "Integerizer"
        mv = W.single_def(f.node, names[0].id) if names else None
        mv_ok = mv is not None and isinstance(mv, ast.Call) and W.call_name(mv) == "max" and "isinstance" in norm(mv) and "int" in norm(mv) \
            and "self.V" in norm(mv) and any(k.arg == "default" for k in mv.keywords)
        ok = bool(integ) and sum(ints) >= 1 and len(calls) == 1 and len(names) == 1 and mv_ok
        slots = dict(offset=sum(ints), max_def=norm(mv) if mv is not None else None)
    r.add(f, rets[0] if rets else f.node, ok, "" if ok else "renumbered nonterminals can coincide with integer terminals (e.g. byte values)", slots=slots)
    g = P.func("cfg.py::CFG.rename")
    r.looked_at(g)
    fn = g.params[1]
    sp = [n for n in walk_live(g.node) if isinstance(n, ast.Call) and W.call_name(n) == "spawn"]
    s_kw = next((k.value for k in sp[0].keywords if k.arg == "S"), None) if sp else None
    ok1 = s_kw is not None and norm(W.deref(g.node, s_kw)) == f"{fn}(self.S)"
    adds = [c for c in _adds(g) if len(c.args) >= 2]
    ok2 = False
    if len(adds) == 1:
        c = adds[0]
        gen = next((x for x in ast.walk(c) if isinstance(x, (ast.GeneratorExp, ast.ListComp))), None)
        elt, var, whole = None, None, False
        if gen is not None and len(gen.generators) == 1 and not gen.generators[0].ifs:
            elt, var = gen.elt, norm(gen.generators[0].target)
            whole = norm(gen.generators[0].iter).endswith(".body")
        else:
            # the body collected by a loop:  body = []; for y in r.body: body.append(<elt>);  new.add(.., *body)
            star = [a.value for a in c.args if isinstance(a, ast.Starred) and isinstance(a.value, ast.Name)]
            if len(star) == 1:
                aps = [x for x in walk_live(g.node) if isinstance(x, ast.Call) and isinstance(x.func, ast.Attribute) and x.func.attr == "append"
                       and W.is_name(x.func.value, star[0].id)]
                if len(aps) == 1 and len(aps[0].args) == 1 and not W.cfacts(g.node, aps[0]) or (len(aps) == 1 and all("is_terminal" not in t for t in W.cfacts(g.node, aps[0]))):
                    lp = next((a for a in ancestors(aps[0]) if isinstance(a, ast.For)), None)
                    if lp is not None and isinstance(lp.target, ast.Name):
                        elt, var = aps[0].args[0], lp.target.id
                        whole = norm(lp.iter).endswith(".body")
        head = W.deref(g.node, c.args[1])
        ok2 = norm(c.args[0]).endswith(".w") and norm(head) == f"{fn}({norm(c.args[0])[:-2]}.head)" and elt is not None and whole \
            and isinstance(elt, ast.IfExp) and norm(elt.test) == f"self.is_terminal({var})" \
            and norm(elt.body) == var and norm(elt.orelse) == f"{fn}({var})"
    r.add(g, adds[0] if adds else g.node, ok1 and ok2, "" if ok1 and ok2 else "rename must map the start symbol, every head and exactly the "
          "non-terminal body symbols through f", slots=dict(start_renamed=ok1, rule_renamed=ok2))
    r.min_instances = 2
    return r


# ---------------------------------------------------------------- LOOPPAIR


def rule_looppair(P):
    r = RuleResult("LOOPPAIR", "in interegular_to_wfsa the pass that counts a state's fan-out K and the pass that emits its arcs range over "
                   "the same iteration space with the same skip guards; the final-state term is counted iff emitted; every emitted "
                   "weight is 1/K — so the mass at every live state is K/K", "local normalisation of the regex automaton")
    f = P.func("lark_interface.py::interegular_to_wfsa")
    r.looked_at(f)
    outer = None
    for n in walk_live(f.node):
        if isinstance(n, ast.For) and norm(n.iter) == "fsm.states" and any(isinstance(x, ast.AugAssign) for x in ast.walk(n)):
            outer = n
    if outer is None:
        raise AnalysisError("interegular_to_wfsa: per-state loop with a fan-out counter not found")
    kname = None
    for n in walk_live(outer):
        if isinstance(n, ast.AugAssign) and isinstance(n.op, ast.Add) and W.int_const(n.value) == 1 and isinstance(n.target, ast.Name):
            kname = n.target.id
    if kname is None:
        raise AnalysisError("interegular_to_wfsa: fan-out counter not found")

    def signature(node):
        loops = []
        for a in ancestors(node):
            if a is outer:
                break
            if isinstance(a, ast.For):
                loops.append(norm(a.iter))
        guards = set()
        for ft in W.cguard_facts(f.node, node):
            if ft.kind == "assert" or not W._within(ft.origin, outer) or ft.origin is outer:
                continue
            if kname in {x.id for x in ast.walk(ft.test) if isinstance(x, ast.Name)}:
                continue
            guards.add(W.cfact_text(ft))
        return tuple(reversed(loops)), frozenset(guards)

    counts = [n for n in walk_live(outer) if isinstance(n, ast.AugAssign) and W.is_name(n.target, kname)]
    emits = [n for n in walk_live(outer) if isinstance(n, ast.Call) and W.call_name(n) in ("add_arc", "add_F", "set_arc", "set_F")]
    if not counts or not emits:
        raise AnalysisError("interegular_to_wfsa: count / emit actions not found")
    csig = {}
    for c in counts:
        csig.setdefault(signature(c), []).append(c)
    esig = {}
    for e in emits:
        esig.setdefault(signature(e), []).append(e)
    # fan-out taken as the length of a list that the emission pass then walks: counted and emitted coincide by construction
    by_len = set()
    for n in walk_live(outer):
        if isinstance(n, ast.Assign) and W.is_name(n.targets[0], kname):
            for x in ast.walk(n.value):
                if isinstance(x, ast.Call) and W.call_name(x) == "len" and len(x.args) == 1 and isinstance(x.args[0], ast.Name):
                    lst = x.args[0].id
                    # the list must not change between `K = len(lst)` and the emission loop over it
                    later = [c for c in walk_live(outer) if isinstance(c, ast.Call) and isinstance(c.func, ast.Attribute) and W.is_name(c.func.value, lst)
                             and c.func.attr in ("append", "extend", "pop", "remove", "clear", "insert") and W.pos(c) > W.pos(n)]
                    if not later:
                        by_len.add(lst)
    for s, es in list(esig.items()):
        if len(s[0]) == 1 and s[0][0] in by_len and not s[1]:
            for e in es:
                wt = e.args[-1]
                okw = W.cnorm(f.node, wt, e) == f"1 / {kname}"
                r.add(f, e, okw, "" if okw else f"weight `{norm(wt)}` is not 1/{kname}", slots=dict(loops=list(s[0]), counted_as=f"len({s[0][0]})"))
            del esig[s]
    for s, es in esig.items():
        ok = s in csig
        miss = ""
        if not ok:
            near = [cs for cs in csig if cs[0] == s[0]]
            if near:
                d = set(near[0][1]) ^ set(s[1])
                miss = "; guards that differ: " + ", ".join(sorted(d))
        for e in es:
            wt = e.args[-1]
            okw = W.cnorm(f.node, wt, e) == f"1 / {kname}"
            r.add(f, e, ok and okw,
                  "" if ok and okw else (f"`{first_line(e)}` is emitted for iterations that the fan-out count did not count{miss}: the "
                                         f"state's outgoing mass is not 1" if not ok else f"weight `{norm(wt)}` is not 1/{kname}"),
                  slots=dict(loops=list(s[0]), guards=sorted(s[1])),
                  witness="interegular_to_wfsa('(?i:ß)'): state mass 2.0, arc label 'SS' (DESIGN §5 D14)" if not ok else None)
    unmatched_emit_loops = {s[0] for s in esig if s not in csig}
    for s, cs in csig.items():
        if s not in esig and s[0] not in unmatched_emit_loops:
            r.add(f, cs[0], False, f"`{first_line(cs[0])}` counts iterations for which nothing is emitted: the state's mass is below 1",
                  slots=dict(loops=list(s[0])))
    # the zero fan-out guard
    r.min_instances = 2
    return r


# ---------------------------------------------------------------- ENC-UTF8


def rule_enc_utf8(P):
    r = RuleResult("ENC-UTF8", "in CFG.to_bytes and WFSA.to_bytes every byte that replaces a string symbol comes from that symbol's "
                   "`.encode('utf-8')` (the whole sequence, in order): no other codec, no ord()/chr() shortcut (ord(c) is the UTF-8 "
                   "encoding only below 0x80)", "byte symbols are exactly the UTF-8 encoding")
    for q, sinks in (("cfg.py::CFG.to_bytes", ("extend", "append", "add", "update")), ("wfsa/base.py::WFSA.to_bytes", ("add_arc",))):
        f = P.func(q)
        r.looked_at(f)
        src = {}
        for n in walk_live(f.node):
            if isinstance(n, ast.Assign) and isinstance(n.targets[0], ast.Name):
                v = n.value
                inner = v.args[0] if isinstance(v, ast.Call) and W.call_name(v) in ("list", "tuple", "bytes") and v.args else v
                if isinstance(inner, ast.Call) and W.call_name(inner) == "encode":
                    codec = inner.args[0].value if inner.args and isinstance(inner.args[0], ast.Constant) else ("utf-8" if not inner.args else None)
                    src[n.targets[0].id] = (n, codec, norm(W.receiver(inner)))
        if not src:
            nested = [g for g in P.funcs.values() if g.outer is f]
            if nested:
                r.undecided(f, f.node, "the encoder call is not in the function body (moved into a helper?)", construct=f"{q}: UTF-8 encoder")
            else:
                r.add(f, f.node, False, "no `<symbol>.encode('utf-8')` found", construct=f"{q}: UTF-8 encoder")
            continue
        for name, (st, codec, sym) in src.items():
            ok = codec is not None and str(codec).lower().replace("_", "-") in ("utf-8", "utf8")
            r.add(f, st, ok, "" if ok else f"`{first_line(st)}` does not encode with UTF-8")
            # the whole symbol is encoded at once: the receiver is the body symbol / arc label itself, not a character of it
            piece = None
            for a_ in ancestors(st):
                if isinstance(a_, ast.For) and W.is_name(a_.target, sym) and isinstance(a_.iter, ast.Name):
                    outer_syms = [b_ for b_ in ancestors(a_) if isinstance(b_, ast.For) and any(isinstance(t_, ast.Name) and t_.id == a_.iter.id for t_ in ast.walk(b_.target))]
                    if outer_syms:
                        piece = (a_, outer_syms[0])
            if piece is not None:
                inner, outer_ = piece
                leaks = [x for x in walk_live(outer_) if isinstance(x, ast.Name) and x.id == name and isinstance(x.ctx, ast.Load) and not W._within(x, inner)]
                if leaks:
                    r.add(f, st, False, f"`{first_line(st)}` encodes one character `{sym}` of the symbol `{inner.iter.id}` per iteration, and `{name}` is read after that "
                          f"loop (line {leaks[0].lineno}): only the bytes of the last character reach the result", construct=f"{f.name}: symbol encoded piecewise")

        def from_src(e):
            if isinstance(e, ast.Name) and e.id not in src:
                v = W.single_def(f.node, e.id)
                if v is not None and isinstance(v, ast.Subscript):
                    return from_src(v)
            if isinstance(e, ast.Name):
                if e.id in src:
                    return True
                for a in ancestors(e):
                    if isinstance(a, ast.For) and (W.is_name(a.target, e.id) or (isinstance(a.target, ast.Tuple) and isinstance(a.iter, ast.Call)
                                                                                       and W.call_name(a.iter) == "enumerate" and len(a.target.elts) == 2
                                                                                       and W.is_name(a.target.elts[1], e.id))):
                        it = a.iter.args[0] if isinstance(a.target, ast.Tuple) else a.iter
                        if isinstance(it, ast.Name) and it.id not in src:
                            v = W.single_def(f.node, it.id)
                            it = v if v is not None else it
                        base = it.value if isinstance(it, ast.Subscript) else it
                        return isinstance(base, ast.Name) and base.id in src
                return False
            if isinstance(e, ast.Subscript):
                return isinstance(e.value, ast.Name) and e.value.id in src
            return False

        for n in walk_live(f.node):
            if isinstance(n, ast.Call) and isinstance(n.func, ast.Name) and n.func.id in ("ord", "chr"):
                r.add(f, n, False, f"`{first_line(n)}`: code points are not UTF-8 bytes above 0x7F ('é' is b'\\xc3\\xa9', not 0xE9)")
            if isinstance(n, ast.Call) and isinstance(n.func, ast.Attribute) and n.func.attr in sinks:
                if n.func.attr == "add_arc":
                    lab = n.args[1]
                    facts = W.guard_facts(n)
                    if any(ft.pol and "EPSILON" in norm(ft.test) for ft in facts):
                        continue
                    ok = from_src(lab)
                    r.add(f, n, ok, "" if ok else f"`{first_line(n)}`: byte label `{norm(lab)}` does not come from the symbol's UTF-8 encoding")
                elif n.func.attr in ("extend", "append") and n.args:
                    if not any(re.match(r"^self\.is_terminal\(\w+\)$", t) for t in W.cfacts(f.node, n)):
                        continue
                    a = n.args[0]
                    ok = from_src(a)
                    r.add(f, n, ok, "" if ok else f"`{first_line(n)}`: `{norm(a)}` is not the symbol's UTF-8 byte sequence")
                elif n.func.attr in ("add", "update") and len(n.args) == 1 and W.cnorm(f.node, W.receiver(n), n).endswith(".V"):
                    ok = from_src(n.args[0])
                    r.add(f, n, ok, "" if ok else f"`{first_line(n)}`: vocabulary entry `{norm(n.args[0])}` is not a UTF-8 byte of the symbol")
        if len([o for o in r.obs if o.function == f.qual.split("::", 1)[1]]) < len(src) + 1:
            r.undecided(f, f.node, "no use of the encoded bytes recognised (would pass vacuously)", construct=f"{q}: byte sinks")
    r.min_instances = 4
    return r


# ---------------------------------------------------------------- COMPLEMENT (regex `anything_else`)


def rule_complement(P):
    r = RuleResult("COMPLEMENT", "interegular_to_wfsa.expand_alphabet: a transition class that stands for `anything_else` expands to the "
                   "character set minus the symbols the automaton mentions explicitly - `charset - set(fsm.alphabet)`, the alphabet's "
                   "members taken as whole symbols; every other class expands to its own members.  Subtracting nothing double-counts "
                   "explicit symbols; flattening the members into their characters removes 'S' because a case-folded 'SS' is mentioned",
                   "negated classes and the dot are the complement relative to the character set")
    q = "lark_interface.py::interegular_to_wfsa.expand_alphabet"
    if not P.has_func(q):
        raise AnalysisError(f"{q} not found")
    f = P.func(q)
    r.looked_at(f)
    a = f.params[0]
    rets = [n for n in walk_live(f.node) if isinstance(n, ast.Return) and n.value is not None]
    comp = [n for n in rets if any(re.match(r"^anything_else in \w+\.alphabet\.by_transition\[" + re.escape(a) + r"\]$", t) for t in W.cfacts(f.node, n))]
    rest = [n for n in rets if n not in comp]
    if len(comp) != 1 or len(rest) != 1:
        r.undecided(f, f.node, f"expected one return under `anything_else in fsm.alphabet.by_transition[{a}]` and one for the other classes "
                    f"(found {len(comp)} and {len(rest)})", construct="expand_alphabet: case split")
        return r
    c = comp[0]
    v = W.canon_ast(f.node, c.value, c)
    if isinstance(v, ast.Name):
        d = W.single_def(f.node, v.id)
        v = d if d is not None else v
    outer = f.outer
    cs = outer.params[1] if outer is not None and len(outer.params) > 1 else "charset"
    if W.is_name(v, cs):
        r.add(f, c, False, f"`{first_line(c)}` returns the whole character set: explicitly mentioned symbols are not removed from the "
              f"`anything_else` class", construct="expand_alphabet: anything_else")
    elif isinstance(v, ast.BinOp) and isinstance(v.op, ast.Sub) and W.is_name(v.left, cs):
        sub = v.right
        if isinstance(sub, ast.Name):
            d = W.single_def(f.node, sub.id)
            sub = d if d is not None else sub
        txt = norm(sub)
        whole = False
        flat = False
        if isinstance(sub, ast.Call) and norm(sub.func) in ("set", "frozenset") and len(sub.args) == 1 and re.match(r"^\w+\.alphabet$", norm(sub.args[0])):
            whole = True
        elif isinstance(sub, ast.SetComp) and len(sub.generators) == 1 and re.match(r"^\w+\.alphabet$", norm(sub.generators[0].iter)) \
                and norm(sub.elt) == norm(sub.generators[0].target) \
                and all("anything_else" in norm(i) for i in sub.generators[0].ifs):
            whole = True
        elif isinstance(sub, ast.BinOp) and isinstance(sub.op, ast.Sub) and isinstance(sub.left, ast.Call) and norm(sub.left.func) in ("set", "frozenset") \
                and len(sub.left.args) == 1 and re.match(r"^\w+\.alphabet$", norm(sub.left.args[0])) and norm(sub.right) in ("{anything_else}", "set([anything_else])"):
            whole = True
        elif "union(*" in txt or "chain" in txt or (isinstance(sub, (ast.SetComp, ast.GeneratorExp, ast.ListComp)) and len(sub.generators) > 1) \
                or "''.join" in txt or '"".join' in txt:
            flat = True
        if flat:
            r.add(f, c, False, f"`{txt}` flattens the alphabet's members into their characters: a multi-character member (a case-folded 'SS') removes "
                  f"its characters from every negated class / dot", construct="expand_alphabet: anything_else")
        elif whole:
            r.add(f, c, True, slots=dict(expansion=norm(v)), construct="expand_alphabet: anything_else")
        else:
            r.undecided(f, c, f"subtrahend `{txt}` not recognised", construct="expand_alphabet: anything_else")
    else:
        r.undecided(f, c, f"`{first_line(c)}` is not `{cs} - <explicit symbols>`", construct="expand_alphabet: anything_else")
    o = rest[0]
    ok = re.match(r"^\w+\.alphabet\.by_transition\[" + re.escape(a) + r"\]$", W.cnorm(f.node, o.value, o)) is not None
    if ok:
        r.add(f, o, True, construct="expand_alphabet: explicit class")
    else:
        r.undecided(f, o, f"`{first_line(o)}` is not the class's own members", construct="expand_alphabet: explicit class")
    r.min_instances = 2
    return r


# ---------------------------------------------------------------- DEADSTATES


def rule_deadstates(P):
    r = RuleResult("DEADSTATES", "interegular_to_wfsa drops exactly the states from which no final state is reachable: the set is defined by "
                   "the automaton's own reachability test (`not fsm.islive(e)` for every state) or by a closure iterated to a fixed point; a "
                   "single sweep that marks a state live when a successor is *already* marked depends on the numbering of the states and "
                   "calls live states dead", "arcs into live states are kept, arcs into dead states dropped")
    f = P.func("lark_interface.py::interegular_to_wfsa")
    r.looked_at(f)
    skip = None
    for n in walk_live(f.node):
        if isinstance(n, ast.Compare) and len(n.ops) == 1 and isinstance(n.ops[0], (ast.In, ast.NotIn)) and isinstance(n.comparators[0], ast.Name):
            par = parent(n)
            if isinstance(par, ast.If) and any(isinstance(x, ast.Continue) for x in par.body) or isinstance(par, ast.comprehension):
                nm = n.comparators[0].id
                if W.assignments_to(f.node, nm) and any(isinstance(a, ast.For) and norm(a.iter).endswith(".states") for a in ancestors(n)):
                    skip = nm
    if skip is None:
        r.undecided(f, f.node, "the set of skipped (dead) target states was not found", construct="interegular_to_wfsa: dead states")
        return r
    defs = W.assignments_to(f.node, skip)
    if len(defs) != 1:
        r.undecided(f, f.node, f"`{skip}` is assigned {len(defs)} times", construct="interegular_to_wfsa: dead states")
        return r
    st, v = defs[0]
    if isinstance(v, (ast.ListComp, ast.SetComp)) and len(v.generators) == 1 and norm(v.generators[0].iter).endswith(".states") \
            and norm(v.elt) == norm(v.generators[0].target) and len(v.generators[0].ifs) == 1:
        t = v.generators[0].ifs[0]
        e = norm(v.elt)
        ok = re.match(r"^not \w+\.islive\(" + re.escape(e) + r"\)$", norm(t)) is not None
        if ok:
            r.add(f, st, True, slots=dict(dead=norm(v)), construct="interegular_to_wfsa: dead states")
        else:
            r.undecided(f, st, f"filter `{norm(t)}` is not the automaton's reachability test", construct="interegular_to_wfsa: dead states")
    elif isinstance(v, ast.BinOp) and isinstance(v.op, ast.Sub) and isinstance(v.right, ast.Name):
        live = v.right.id
        grow = [n for n in walk_live(f.node) if isinstance(n, ast.Call) and isinstance(n.func, ast.Attribute) and n.func.attr in ("add", "update")
                and W.is_name(n.func.value, live)]
        single = [g for g in grow if not any(isinstance(a, ast.While) for a in ancestors(g))
                  and any(isinstance(a, ast.For) for a in ancestors(g))
                  and any(live in {x.id for x in ast.walk(ft.test) if isinstance(x, ast.Name)} for ft in W.guard_facts(g))]
        if single:
            r.add(f, single[0], False, f"`{first_line(single[0])}`: `{live}` grows in one sweep, conditioned on what is already in `{live}`, and the sweep "
                  f"is not repeated until nothing changes: a state whose only way to a final state goes through a state visited later is "
                  f"classified dead and every arc into it is dropped", construct="interegular_to_wfsa: dead states")
        else:
            r.undecided(f, st, f"`{first_line(st)}`: computation of `{live}` not recognised", construct="interegular_to_wfsa: dead states")
    else:
        r.undecided(f, st, f"`{first_line(st)}` not recognised", construct="interegular_to_wfsa: dead states")
    r.min_instances = 1
    return r


# ---------------------------------------------------------------- LARK-VOCAB


def rule_lark_vocab(P):
    r = RuleResult("LARK-VOCAB", "LarkStuff.convert declares every lark terminal as a terminal of the token-level grammar "
                   "(V = {t.name for t in self.terminals}, unfiltered): a terminal left out of V but mentioned by a rule (an %ignore'd "
                   "terminal that a rule also uses explicitly) is taken for a nonterminal, renumber() renames it, and _char_cfg's "
                   "`N<name>` link to its character-level automaton no longer matches", "terminal names keep denoting the lexer's terminals")
    f = P.func("lark_interface.py::LarkStuff.convert")
    r.looked_at(f)
    ctor = [c for c in walk_live(f.node) if isinstance(c, ast.Call) and W.call_name(c) == "CFG" and any(k.arg == "V" for k in c.keywords)]
    if len(ctor) != 1:
        r.undecided(f, f.node, f"{len(ctor)} CFG(..., V=...) constructions in convert", construct="convert: token vocabulary")
        return r
    v = next(k.value for k in ctor[0].keywords if k.arg == "V")
    if isinstance(v, ast.Name):
        d = W.single_def(f.node, v.id)
        v = d if d is not None else v
    if isinstance(v, ast.Call) and W.call_name(v) in ("set", "frozenset") and len(v.args) == 1:
        v = v.args[0]
    if isinstance(v, (ast.SetComp, ast.GeneratorExp, ast.ListComp)) and len(v.generators) == 1 and norm(v.generators[0].iter) == "self.terminals" \
            and isinstance(v.generators[0].target, ast.Name) and norm(v.elt) == f"{v.generators[0].target.id}.name":
        ok = not v.generators[0].ifs
        r.add(f, ctor[0], ok, "" if ok else f"V leaves out the terminals failing `{norm(v.generators[0].ifs[0])}`; a rule may still mention them "
              f"(lark keeps an %ignore'd terminal that is used explicitly), and then they are nonterminals of the token grammar",
              construct="convert: token vocabulary", slots=dict(V=norm(v)))
    else:
        r.undecided(f, ctor[0], f"V = `{norm(v)}` is not a comprehension over self.terminals", construct="convert: token vocabulary")
    r.min_instances = 1
    return r


# ---------------------------------------------------------------- NS-WRAPPERS


def _ctor_sig(P, m, e, wrappers):
    """(label, arity, {pos: const}) of a fresh-name constructor expression, or None."""
    if isinstance(e, ast.Call) and isinstance(e.func, ast.Name) and e.func.id in wrappers:
        return (e.func.id, wrappers[e.func.id], ())
    if isinstance(e, ast.Tuple) and any(isinstance(x, ast.Constant) and isinstance(x.value, str) for x in e.elts) \
            and not any(isinstance(x, ast.Starred) for x in e.elts):
        consts = tuple((i, x.value) for i, x in enumerate(e.elts) if isinstance(x, ast.Constant))
        return (norm(e), len(e.elts), consts)
    return None


def rule_ns_wrappers(P):
    r = RuleResult("NS-WRAPPERS", "the grammar transformations make fresh nonterminal names by wrapping an old name: in a namedtuple "
                   "(NotNull, Slash) or in a tuple tagged with a constant ((x, 'bot')). namedtuples compare and hash as plain tuples, so "
                   "two wrappers that put names *directly* into a grammar's nonterminal set must differ in arity or in a constant "
                   "component; otherwise W1(X) == W2(X) and the rules of two different nonterminals merge as soon as one transformation "
                   "is applied to the output of the other", "fresh names made by different transformations never coincide")
    m = P.module("cfg.py")
    wrappers = {}
    for st in m.tree.body:
        if isinstance(st, ast.Assign) and len(st.targets) == 1 and isinstance(st.targets[0], ast.Name) and isinstance(st.value, ast.Call) \
                and W.call_name(st.value) == "namedtuple" and len(st.value.args) >= 2:
            fl = st.value.args[1]
            if isinstance(fl, ast.Constant) and isinstance(fl.value, str):
                n = len(fl.value.replace(",", " ").split())
            elif isinstance(fl, (ast.List, ast.Tuple)):
                n = len(fl.elts)
            else:
                continue
            wrappers[st.targets[0].id] = n
    used = {}  # sig -> (func, node)

    def resolve(f, e, depth=0):
        """constructor signatures that expression `e` (an argument of .add in f) may evaluate to; only flows that can be followed"""
        if depth > 4:
            return
        s = _ctor_sig(P, m, e, wrappers)
        if s is not None:
            yield s, e
            return
        if isinstance(e, ast.IfExp):
            yield from resolve(f, e.body, depth + 1)
            yield from resolve(f, e.orelse, depth + 1)
            return
        if isinstance(e, ast.Starred):
            yield from resolve(f, e.value, depth + 1)
            return
        if isinstance(e, (ast.GeneratorExp, ast.ListComp)):
            yield from resolve(f, e.elt, depth + 1)
            return
        if isinstance(e, ast.Name):
            # a list filled by  name.append(<expr>)
            g = f
            while g is not None:
                for x in walk_live(g.node):
                    if isinstance(x, ast.Call) and isinstance(x.func, ast.Attribute) and x.func.attr == "append" and W.is_name(x.func.value, e.id) and x.args:
                        yield from resolve(g, x.args[0], depth + 1)
                g = g.outer
            return
        if isinstance(e, ast.Call) and isinstance(e.func, ast.Name):
            name = e.func.id
            # a parameter (of f or an enclosing function) whose default is a wrapper:  rename=NotNull
            g = f
            while g is not None:
                a = g.node.args
                pos = a.posonlyargs + a.args
                defaults = dict(zip([x.arg for x in pos[len(pos) - len(a.defaults):]], a.defaults))
                defaults.update({k.arg: d for k, d in zip(a.kwonlyargs, a.kw_defaults) if d is not None})
                if name in defaults and isinstance(defaults[name], ast.Name) and defaults[name].id in wrappers:
                    w = defaults[name].id
                    yield (w, wrappers[w], ()), e
                    return
                g = g.outer
            # a nested helper of f or of an enclosing function
            g = f
            while g is not None:
                h = P.funcs.get(f"{g.qual}.<locals>.{name}") or next((x for x in P.funcs.values() if x.outer is g and x.name == name), None)
                if h is not None:
                    for x in walk_live(h.node):
                        if isinstance(x, ast.Return) and x.value is not None:
                            yield from resolve(h, x.value, depth + 1)
                    return
                g = g.outer

    for f in P.funcs_in("cfg.py"):
        if f.cls is None or f.cls.name != "CFG":
            continue
        for c in _adds(f):
            if len(c.args) < 2:
                continue
            r.looked_at(f)
            for a in c.args[1:]:
                for s, node in resolve(f, a):
                    used.setdefault(s, (f, node))
    sigs = sorted(used)
    r.note(f"wrappers declared: {sorted(wrappers.items())}; constructors that reach a CFG.add argument: {[s[0] for s in sigs]}")
    if len(sigs) < 3:
        r.undecided(P.func("cfg.py::CFG._push_null_weights"), m.tree, f"expected at least the three fresh-name constructors of today's tree "
                    f"(NotNull, Slash, the tagged 'bot' tuple) to reach CFG.add; found {[s[0] for s in sigs]}", construct="fresh-name constructors")
        return r
    for i, s1 in enumerate(sigs):
        for s2 in sigs[i + 1:]:
            if s1[0] == s2[0]:
                continue
            c1, c2 = dict(s1[2]), dict(s2[2])
            distinct = s1[1] != s2[1] or any(p in c2 and c2[p] != v for p, v in c1.items())
            # a constant tag against an arbitrary component is not a guarantee, but a namedtuple component is an old symbol, and the
            # library's tags ('bot') are not symbols it generates: accepted as distinct
            if not distinct and (c1 or c2) and not (c1 and c2):
                distinct = True
            f2, n2 = used[s2]
            r.add(f2, n2, distinct, "" if distinct else f"`{s1[0]}` (used in {used[s1][0].qual}) and `{s2[0]}` build equal tuples for the same "
                  f"argument (same arity {s1[1]}, no distinguishing constant): applying one transformation to the other's output merges two nonterminals",
                  construct=f"fresh names {s1[0]} vs {s2[0]}", slots=dict(a=s1[0], b=s2[0], arity=(s1[1], s2[1])))
    r.min_instances = 3
    return r
