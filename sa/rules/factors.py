"""Factor-multiset / weight-conservation rules: WAUX, COPY, FACTOR-* , ACCUM-DELTA."""

from __future__ import annotations

import ast

from ..model import AnalysisError, norm, walk_live, parent, ancestors, first_line
from ..report import RuleResult
from .. import walk as W


def _is_one(f, e):
    d = W.deref(f.node, e)
    return isinstance(d, ast.Attribute) and d.attr == "one"


def _is_gen_nt(f, e, at=None):
    d = W.deref(f.node, e)
    if isinstance(d, ast.Name) and at is not None:
        rd = W.reaching_def(f.node, d.id, at)
        if rd is not None and rd[1] is not None:
            d = rd[1]
    if isinstance(d, ast.Call) and W.call_name(d) == "_gen_nt":
        return True
    # element of a list built only from _gen_nt() calls:  heads = [_gen_nt() for _ in I]; for head, ... in zip(heads, I)
    c = W.canon_ast(f.node, e, at if at is not None else e)
    if isinstance(c, ast.Subscript) and isinstance(c.value, ast.Name):
        src = W.single_def(f.node, c.value.id)
        if isinstance(src, ast.ListComp) and isinstance(src.elt, ast.Call) and W.call_name(src.elt) == "_gen_nt":
            return True
        if isinstance(src, ast.List) and not src.elts:
            apps = [n for n in walk_live(f.node) if isinstance(n, ast.Call) and W.call_name(n) == "append" and W.is_name(W.receiver(n), c.value.id)]
            return bool(apps) and all(_is_gen_nt(f, a.args[0], a) for a in apps)
    return False


def _adds(f, names=("add",), into_nested=False):
    return [n for n in walk_live(f.node, into_nested=into_nested)
            if isinstance(n, ast.Call) and isinstance(n.func, ast.Attribute) and n.func.attr in names]


def _loop_vars(node):
    """{var: iter_text} for enclosing for-loops (tuple targets flattened)"""
    out = {}
    fn = W.enclosing_function(node)
    for a in ancestors(node):
        if isinstance(a, (ast.For, ast.comprehension)):
            it = W.citer(fn, a) if fn is not None and isinstance(a, ast.For) else norm(a.iter)
            for t in ast.walk(a.target):
                if isinstance(t, ast.Name):
                    out.setdefault(t.id, it)
        if isinstance(a, (ast.FunctionDef, ast.AsyncFunctionDef)):
            break
    return out


def _verbatim_copy(call):
    """`X.add(r.w, r.head, *r.body)` -> 'r' else None"""
    if len(call.args) != 3 or not isinstance(call.args[2], ast.Starred):
        return None
    a, b, c = norm(call.args[0]), norm(call.args[1]), norm(call.args[2].value)
    if a.endswith(".w") and b.endswith(".head") and c.endswith(".body"):
        rs = {a[:-2], b[:-5], c[:-5]}
        if len(rs) == 1:
            return rs.pop()
    return None


# ---------------------------------------------------------------- WAUX


def rule_waux(P, which=("_fold", "separate_terminals", "separate_start", "add_EOS")):
    r = RuleResult("WAUX", "a rule whose head is a fresh nonterminal introduced only to group existing symbols carries R.one and the "
                   "original weight appears on exactly one emitted rule; a preterminal is always a fresh nonterminal minted for "
                   "that terminal (never an existing rule that happens to look like one)",
                   "auxiliary rules conserve weight and add no derivations")
    if "_fold" in which:
        f = P.func("cfg.py::CFG._fold")
        r.looked_at(f)
        pr = f.params[1]
        rules = [n for n in walk_live(f.node) if isinstance(n, ast.Call) and W.call_name(n) == "Rule"]
        if len(rules) < 2:
            raise AnalysisError("cfg.py::CFG._fold: Rule(...) constructions not found")
        n_orig = 0
        for c in rules:
            w, h = c.args[0], c.args[1]
            if norm(w) == f"{pr}.w":
                n_orig += 1
                ok = norm(h) == f"{pr}.head" and not W.enclosing_loops(c)
                r.add(f, c, ok, "" if ok else "the rule carrying the original weight must keep the original head and be emitted once")
            else:
                ok = _is_one(f, w) and _is_gen_nt(f, h, c)
                r.add(f, c, ok, "" if ok else f"auxiliary rule `{first_line(c)}` must have weight R.one and a fresh head "
                      f"(weight {norm(w)}, head {norm(W.deref(f.node, h))})")
        if n_orig != 1:
            r.add(f, f.node, False, f"the original weight {pr}.w is carried by {n_orig} emitted rules (must be exactly one)",
                  construct="_fold: original weight carried once")
    if "separate_terminals" in which:
        f = P.func("cfg.py::CFG.separate_terminals")
        r.looked_at(f)
        pres = [g for g in P.funcs.values() if g.outer is f and any(isinstance(n, ast.Call) and W.call_name(n) == "_gen_nt" for n in walk_live(g.node))]
        if len(pres) != 1:
            raise AnalysisError("cfg.py::CFG.separate_terminals: the nested preterminal factory (calls _gen_nt) not found")
        pre = pres[0]
        r.looked_at(pre)
        adds = _adds(pre)
        if len(adds) != 1:
            raise AnalysisError("separate_terminals.preterminal: expected one add")
        c = adds[0]
        ok = _is_one(f, c.args[0]) and _is_gen_nt(pre, c.args[1]) and len(c.args) == 3 and W.is_name(c.args[2], pre.params[0])
        r.add(pre, c, ok, "" if ok else "a preterminal rule must be R.one: <fresh> → <the terminal>")
        # the cache of preterminals is fed only by that add
        cache = None
        for n in walk_live(pre.node):
            if isinstance(n, ast.Call) and W.call_name(n) == "get" and isinstance(W.receiver(n), ast.Name):
                cache = W.receiver(n).id
        if cache is None:
            raise AnalysisError("separate_terminals.preterminal: cache look-up not found")
        for fn in (f, pre):
            for n in walk_live(fn.node):
                st_val = None
                if isinstance(n, ast.Assign) and isinstance(n.targets[0], ast.Subscript) and W.is_name(n.targets[0].value, cache):
                    st_val = n.value
                elif isinstance(n, ast.Call) and W.call_name(n) in ("setdefault", "update", "__setitem__") and W.is_name(W.receiver(n), cache):
                    st_val = n.args[-1] if n.args else n
                elif isinstance(n, ast.AugAssign) and W.is_name(n.target, cache):
                    st_val = n.value
                if st_val is None:
                    continue
                src = st_val
                if isinstance(src, ast.Name):
                    rd = W.reaching_def(fn.node, src.id, n)
                    src = rd[1] if rd and rd[1] is not None else src
                ok = fn is pre and src is c
                r.add(fn, n, ok, "" if ok else f"`{first_line(n)}` registers an existing rule as the preterminal of a terminal: its "
                      f"head may have other rules, so every inline use of the terminal gains those derivations",
                      slots=dict(cache=cache))
    if "separate_start" in which:
        f = P.func("cfg.py::CFG.separate_start")
        r.looked_at(f)
        for c in _adds(f):
            if _verbatim_copy(c):
                continue
            ok = _is_one(f, c.args[0]) and _is_gen_nt(f, c.args[1]) and len(c.args) == 3 and norm(c.args[2]) == "self.S"
            r.add(f, c, ok, "" if ok else "the new start rule must be R.one: <fresh> → S")
    if "add_EOS" in which:
        f = P.func("cfglm.py::add_EOS")
        r.looked_at(f)
        g = f.params[0]
        aux = [c for c in _adds(f) if not _verbatim_copy(c) and len(c.args) >= 2]
        if len(aux) != 1:
            raise AnalysisError("cfglm.py::add_EOS: expected exactly one non-copy rule")
        c = aux[0]
        eos = f.params[1]
        ok = _is_one(f, c.args[0]) and _is_gen_nt(f, c.args[1]) and len(c.args) == 4 and norm(c.args[2]) == f"{g}.S" and W.is_name(c.args[3], eos) \
            and not W.enclosing_loops(c)
        r.add(f, c, ok, "" if ok else f"add_EOS must add exactly R.one: <fresh start> → {g}.S eos", slots=dict(rule=first_line(c)))
        sp = [n for n in walk_live(f.node) if isinstance(n, ast.Call) and W.call_name(n) == "spawn"]
        s_kw = next((k.value for k in sp[0].keywords if k.arg == "S"), None) if sp else None
        ok = s_kw is not None and norm(s_kw) == norm(c.args[1])
        r.add(f, sp[0] if sp else f.node, ok, "" if ok else "the fresh nonterminal is not the new grammar's start symbol")
        # eos joins the new grammar's vocabulary
        vadd = [n for n in walk_live(f.node) if isinstance(n, ast.Call) and W.call_name(n) == "add" and len(n.args) == 1 and norm(W.receiver(n)).endswith(".V")]
        ok = len(vadd) == 1 and W.is_name(vadd[0].args[0], eos) and norm(W.receiver(vadd[0])) == f"{norm(c.func.value)}.V"
        r.add(f, vadd[0] if vadd else f.node, ok, "" if ok else "eos is not added to the new grammar's vocabulary")
    r.min_instances = sum({"_fold": 2, "separate_terminals": 2, "separate_start": 1, "add_EOS": 3}[w] for w in which)
    return r


# ---------------------------------------------------------------- COPY


LIVE_ITER = {"cfg.py::CFG.to_bytes": "self", "cfglm.py::locally_normalize": None, "cfg.py::CFG.rename": "self", "cfg.py::CFG.map_values": "self",
             "cfg.py::CFG.unaryremove": "self", "cfg.py::CFG._push_null_weights": "self", "cfg.py::CFG.separate_terminals": "self"}


def rule_live_rules(P):
    r = RuleResult("LIVE-RULES", "conversions and transformations read the grammar's live rule list (`for r in self`), never a memoised "
                   "view of it (trim(), rhs, cnf): those caches are not invalidated by add(), so rules added after the first use would "
                   "be missing from the result", "results reflect the grammar as it is now")
    for q, src in LIVE_ITER.items():
        f = P.func(q)
        r.looked_at(f)
        src = src or f.params[0]
        sites = [c for c in _adds(f, into_nested=True) if len(c.args) >= 2]
        loops = {id(a): a for c in sites for a in ancestors(c) if isinstance(a, ast.For)}
        rule_loops = [a for a in loops.values() if W.citer(f.node, a) in (src, f"{src}.rules", f"enumerate({src})")]
        other = [a for a in loops.values() if any(k in W.citer(f.node, a) for k in (".trim()", ".rhs", ".cnf", "cotrim()"))]
        if other:
            r.add(f, other[0], False, f"`for {norm(other[0].target)} in {norm(other[0].iter)}` reads a memoised view of the grammar: rules added with add() after "
                  f"the view was first computed are silently missing", slots=dict(iterates=W.citer(f.node, other[0])))
        elif rule_loops:
            r.add(f, rule_loops[0], True, slots=dict(iterates=W.citer(f.node, rule_loops[0])))
        else:
            r.undecided(f, f.node, "rule loop not recognised", construct=f"{q}: rule loop")
    # no method of CFG decides what to do with *this* grammar by looking at its memoised trimmed copy (cotrim is the only tabled user)
    cfgc = P.cls("cfg.py", "CFG")
    n_m = 0
    for name, m in sorted(cfgc.methods.items()):
        n_m += 1
        for c in walk_live(m.node, into_nested=True):
            if isinstance(c, ast.Call) and isinstance(c.func, ast.Attribute) and c.func.attr == "trim" and W.is_name(c.func.value, m.params[0] if m.params else "self"):
                if name in ("cotrim",):
                    r.add(m, c, True, slots=dict(reads="self.trim(...)", tabled="cotrim is trim(bottomup_only=True) by definition"), nontrivial=False)
                    continue
                par = parent(c)
                returned = isinstance(par, ast.Return) or (isinstance(par, ast.Attribute) and isinstance(parent(par), ast.Call))
                r.add(m, c, False, f"`{first_line(W.stmt_of(c))}` consults the memoised trimmed copy of the grammar it is transforming: `_trim_cache` is not reset by add(), "
                      f"so the decision is taken on the rules the grammar had when trim() was first called - and dead rules, which the "
                      f"transformation must still handle (they may mention the start symbol), are invisible to it",
                      slots=dict(reads=norm(c), used_as="result" if returned else "iterable / test"))
    if n_m < 40:
        raise AnalysisError("LIVE-RULES: CFG methods not found")
    r.min_instances = 6
    return r


COPY_FUNCS = {
    "cfg.py::CFG.__getitem__": "self", "cfg.py::CFG.separate_start": "self", "cfg.py::CFG.unfold": "self",
    "cfg.py::CFG.binarize": None, "cfg.py::CFG._trim": "self", "cfg.py::CFG.derivative": "self",
    "cfglm.py::add_EOS": "cfg",
}


def rule_copy(P):
    r = RuleResult("COPY", "transformations that keep the input rules copy each of them verbatim (weight, head, body of the same "
                   "rule) in a loop over all rules of the input grammar, unconditionally unless the function's postcondition "
                   "filters (trim, unfold)", "kept rules are unmodified and complete")
    for q, src in COPY_FUNCS.items():
        f = P.func(q)
        r.looked_at(f)
        copies = [(c, _verbatim_copy(c)) for c in _adds(f) if _verbatim_copy(c)]
        if not copies:
            r.add(f, f.node, False, "no verbatim copy `add(r.w, r.head, *r.body)` of the input rules found", construct=f"{q}: copy loop")
            continue
        for c, rv in copies:
            lv = _loop_vars(c)
            it = lv.get(rv)
            if q.endswith("binarize"):
                ok = True  # popped from the work stack
                it = "stack"
            elif q.endswith("unfold"):
                ok = it in ("enumerate(self)", "self", "self.rules")
                if not ok and it is not None and it.isidentifier():
                    # the kept rules collected first: kept = [r for j, r in enumerate(self) if j != i]
                    d = W.single_def(f.node, it)
                    if isinstance(d, (ast.ListComp, ast.GeneratorExp)) and len(d.generators) == 1 and norm(d.generators[0].iter) in ("enumerate(self)", "enumerate(self.rules)") \
                            and isinstance(d.generators[0].target, ast.Tuple) and len(d.generators[0].target.elts) == 2 \
                            and norm(d.elt) == norm(d.generators[0].target.elts[1]) and len(d.generators[0].ifs) == 1:
                        t_ = d.generators[0].ifs[0]
                        jv = norm(d.generators[0].target.elts[0])
                        ok = isinstance(t_, ast.Compare) and isinstance(t_.ops[0], ast.NotEq) and jv in (norm(t_.left), norm(t_.comparators[0]))
                        if not ok:
                            r.undecided(f, c, f"kept rules are selected by `{norm(t_)}`", construct="unfold: kept rules")
                            continue
            else:
                ok = it in (src, f"{src}.rules", f"iter({src})")
            facts = W.guard_facts(c)
            cond = [repr(x) for x in facts if x.kind in ("if", "else", "early-exit", "early-exit-else")]
            if ok and q in ("cfg.py::CFG.__getitem__", "cfglm.py::add_EOS", "cfg.py::CFG.derivative", "cfg.py::CFG.separate_start"):
                # must be unconditional inside the loop
                inner = [x for x in facts if x.kind in ("if", "else", "early-exit", "early-exit-else") and W._within(x.origin, _loop_of(c, rv))]
                ok = not inner
            r.add(f, c, ok, "" if ok else f"`{first_line(c)}` does not copy every rule of `{src}` unconditionally (iterates `{it}`, "
                  f"conditions {cond})", slots=dict(iterates=it, rule_var=rv))
    r.min_instances = 7
    return r


def _loop_of(node, var):
    for a in ancestors(node):
        if isinstance(a, ast.For) and any(isinstance(t, ast.Name) and t.id == var for t in ast.walk(a.target)):
            return a
    return None


# ---------------------------------------------------------------- FACTOR-UNARYREMOVE


def rule_factor_unaryremove(P):
    r = RuleResult("FACTOR-UNARYREMOVE", "unaryremove re-attaches every non-unary rule r to every nonterminal Y with weight "
                   "closure[Y, r.head] · r.w, the closure being that of the unary graph: no rule is copied without the closure factor",
                   "unary chains are folded into the remaining rules")
    f = P.func("cfg.py::CFG.unaryremove")
    r.looked_at(f)
    clo = None
    for n in walk_live(f.node):
        if isinstance(n, ast.Assign) and isinstance(n.targets[0], ast.Name) and isinstance(n.value, ast.Call):
            names = W.chain_names(n.value)
            if names[:1] == ["_unary_graph"] and len(names) == 2 and names[1] in ("closure_scc_based", "closure_reference", "closure"):
                clo = n.targets[0].id
    if clo is None:
        raise AnalysisError("cfg.py::CFG.unaryremove: closure of the unary graph not found")
    sites = [c for c in _adds(f) if len(c.args) >= 2]
    if not sites:
        raise AnalysisError("cfg.py::CFG.unaryremove: no add site")
    for c in sites:
        num, den = W.cfactors(f.node, c.args[0], c)
        head = norm(c.args[1])
        lv = _loop_vars(c)
        rv = next((v for v, it in lv.items() if it in ("self", "self.rules")), None)
        want = sorted([f"{clo}[{head}, {rv}.head]", f"{rv}.w"])
        ok = num == want and not den and lv.get(head) in ("self.N",) and len(c.args) == 3 and isinstance(c.args[2], ast.Starred) \
            and W.cnorm(f.node, c.args[2].value, c) == f"{rv}.body"
        r.add(f, c, ok, "" if ok else f"`{first_line(c)}`: weight factors {num} / head `{head}` over `{lv.get(head)}`; expected "
              f"{want} with the head ranging over self.N and the body copied", slots=dict(factors=num, head_ranges_over=lv.get(head)))
    r.min_instances = 1
    return r


# ---------------------------------------------------------------- FACTOR-EPSREMOVE / LINK / PUSH / DET / BYTES / LOCNORM


def rule_factor_epsremove(P):
    r = RuleResult("FACTOR-EPSREMOVE", "ε-removal applies the ε-closure S on exactly one side, consistently: start weights w_i·S[i,k] at k, "
                   "arcs w_ij·S[j,k] retargeted to k, final weights unchanged (closure-after idiom)", "ε paths are counted once")
    f = P.func("wfsa/base.py::WFSA.epsremove")
    r.looked_at(f)
    sname = None
    for n in walk_live(f.node):
        if isinstance(n, ast.Assign) and isinstance(n.targets[0], ast.Name) and isinstance(n.value, ast.Call) and W.call_name(n.value) == "closure":
            sname = n.targets[0].id
            src = W.deref(f.node, W.receiver(n.value))
            ok = norm(src) == "self.E"
            r.add(f, n, ok, "" if ok else "the closure is not that of the ε-graph self.E")
    if sname is None:
        raise AnalysisError("wfsa/base.py::WFSA.epsremove: closure variable not found")
    sp = [n for n in walk_live(f.node) if isinstance(n, ast.Call) and W.call_name(n) == "spawn"]
    kw = {k.arg: k.value for k in sp[0].keywords} if sp else {}
    keep_stop = isinstance(kw.get("keep_stop"), ast.Constant) and kw["keep_stop"].value is True
    no_other = all(not (isinstance(kw.get(k), ast.Constant) and kw[k].value) for k in ("keep_init", "keep_arcs"))
    addF = _adds(f, names=("add_F", "set_F"))
    ok = keep_stop and no_other and not addF
    r.add(f, sp[0] if sp else f.node, ok, "" if ok else "final weights must be kept unchanged (keep_stop=True, no add_F) and start/arcs rebuilt",
          slots=dict(keep_stop=keep_stop))
    for c in _adds(f, names=("add_I",)):
        lv = _loop_vars(c)
        st, wt = norm(c.args[0]), c.args[1]
        num, den = W.cfactors(f.node, wt, c)
        iv = next((v for v, it in lv.items() if it == "self.I" and v in [norm(x) for x in ast.walk(wt) if isinstance(x, ast.Name)] and f"{sname}[{v}, " in norm(wt)), None)
        wv = [v for v, it in lv.items() if it == "self.I" and v != iv]
        ok = iv is not None and len(wv) == 1 and num == sorted([wv[0], f"{sname}[{iv}, {st}]"]) and not den and lv.get(st) == f"{sname}.outgoing[{iv}]"
        r.add(f, c, ok, "" if ok else f"`{first_line(c)}`: start weight must be w_i · {sname}[i, k] placed at k ∈ {sname}.outgoing[i]", slots=dict(factors=num))
    for c in _adds(f, names=("add_arc",)):
        lv = _loop_vars(c)
        src, lab, tgt, wt = (norm(x) for x in c.args[:4])
        num, den = W.cfactors(f.node, c.args[3], c)
        arcvars = [v for v, it in lv.items() if it == "self.arcs()"]
        # (i, a, j, w) order
        loop = _loop_of(c, src)
        ok = False
        if loop is not None and isinstance(loop.target, ast.Tuple) and len(loop.target.elts) == 4:
            i, a, j, w = (norm(e) for e in loop.target.elts)
            ok = src == i and lab == a and num == sorted([w, f"{sname}[{j}, {tgt}]"]) and not den and lv.get(tgt) == f"{sname}.outgoing[{j}]"
        r.add(f, c, ok, "" if ok else f"`{first_line(c)}`: arc weight must be w_ij · {sname}[j, k] from i to k ∈ {sname}.outgoing[j]", slots=dict(factors=num))
    r.min_instances = 4
    return r


def rule_factor_link(P):
    r = RuleResult("FACTOR-LINK", "concatenation and Kleene plus link every final state of the left part to every initial state of the "
                   "right part by an ε arc of weight w_final · w_initial; star = one + plus", "link arcs carry both boundary weights")
    for name, left, right in (("__mul__", "self.F", None), ("kleene_plus", "self.F", "self.I")):
        f = P.func(f"wfsa/base.py::WFSA.{name}")
        r.looked_at(f)
        o = f.params[1] if len(f.params) > 1 else None
        right_it = right or f"{o}.I"
        links = [c for c in _adds(f, names=("add_arc",)) if len(c.args) >= 4 and norm(c.args[1]) == "EPSILON"]
        if len(links) != 1:
            r.add(f, f.node, False, f"expected exactly one ε link arc in {name}, found {len(links)}", construct=f"{name}: ε link")
            continue
        c = links[0]
        lv = _loop_vars(c)
        src, tgt = norm(c.args[0]), norm(c.args[2])
        num, den = W.cfactors(f.node, c.args[3], c)
        lf = _loop_of(c, src)
        li = _loop_of(c, tgt)
        ok = False
        if lf is not None and li is not None and isinstance(lf.target, ast.Tuple) and isinstance(li.target, ast.Tuple):
            ok = W.citer(f.node, lf) == left and W.citer(f.node, li) == right_it and norm(lf.target.elts[0]) == src and norm(li.target.elts[0]) == tgt \
                and num == sorted([norm(lf.target.elts[1]), norm(li.target.elts[1])]) and not den
        if ok:
            inner_guards = [ft for ft in W.guard_facts(c) if ft.kind in ("if", "else", "early-exit", "early-exit-else") and W._within(ft.origin, lf)]
            if inner_guards:
                ok = False
        r.add(f, c, ok, "" if ok else f"`{first_line(c)}`: link must go, unconditionally, from each (q, w1) in {left} to each (p, w2) in {right_it} with weight w1·w2",
              slots=dict(factors=num, source_from=norm(lf.iter) if lf else None, target_from=norm(li.iter) if li else None))
        if name == "__mul__":
            # left keeps init+arcs (not stop); right contributes arcs and stop (not init)
            sp = [n for n in walk_live(f.node) if isinstance(n, ast.Call) and W.call_name(n) == "spawn"]
            kw = {k.arg: (k.value.value if isinstance(k.value, ast.Constant) else None) for k in sp[0].keywords} if sp else {}
            ok = kw.get("keep_init") is True and kw.get("keep_arcs") is True and not kw.get("keep_stop")
            addI = _adds(f, names=("add_I", "set_I"))
            addF = [x for x in _adds(f, names=("add_F",)) if _loop_vars(x).get(norm(x.args[0])) == f"{o}.F"]
            ok = ok and not addI and len(addF) == 1
            r.add(f, sp[0] if sp else f.node, ok, "" if ok else "concatenation must start in the left operand's initial states and end in the right operand's final states only")
    s = P.func("wfsa/base.py::WFSA.star")
    r.looked_at(s)
    rets = [n for n in walk_live(s.node) if isinstance(n, ast.Return)]
    ok = len(rets) == 1 and sorted(norm(x) for x in W.summands(rets[0].value)) == ["self.kleene_plus()", "self.one"]
    r.add(s, rets[0] if rets else s.node, ok, "" if ok else "star must be one + kleene_plus")
    r.min_instances = 4
    return r


def rule_factor_push(P):
    r = RuleResult("FACTOR-PUSH", "weight pushing with potential V = backward weights: start·V[i]; V[i]⁻¹·stop[i]; V[i]⁻¹·w·V[j] — the "
                   "exponents telescope along every path", "pushing preserves path weights")
    f = P.func("wfsa/base.py::WFSA.push")
    r.looked_at(f)
    v = None
    for n in walk_live(f.node):
        if isinstance(n, ast.Assign) and norm(n.value) == "self.backward" and isinstance(n.targets[0], ast.Name):
            v = n.targets[0].id
    if v is None:
        raise AnalysisError("wfsa/base.py::WFSA.push: potential `= self.backward` not found")
    for c in _adds(f, names=("add_I", "add_F", "add_arc")):
        nm = c.func.attr
        if nm == "add_I":
            s = norm(c.args[0])
            num, den = W.cfactors(f.node, c.args[1], c)
            ok = num == sorted([W.ctext(f.node, f"self.start[{s}]", c), W.ctext(f.node, f"{v}[{s}]", c)]) and not den
        elif nm == "add_F":
            s = norm(c.args[0])
            num, den = W.cfactors(f.node, c.args[1], c)
            ok = num == [W.ctext(f.node, f"self.stop[{s}]", c)] and den == [W.ctext(f.node, f"{v}[{s}]", c)]
        else:
            i, a, j = (norm(x) for x in c.args[:3])
            num, den = W.cfactors(f.node, c.args[3], c)
            lp = _loop_of(c, j)
            w = norm(lp.target.elts[-1]) if lp is not None and isinstance(lp.target, ast.Tuple) else "?"
            ok = num == sorted([w, W.ctext(f.node, f"{v}[{j}]", c)]) and den == [W.ctext(f.node, f"{v}[{i}]", c)] and lp is not None and norm(lp.iter) == f"self.arcs({i})"
        r.add(f, c, ok, "" if ok else f"`{first_line(c)}`: factors {num} / {den} do not telescope with the potential {v}", slots=dict(num=num, den=den))
    r.min_instances = 3
    return r


def rule_factor_det(P):
    r = RuleResult("FACTOR-DET", "determinize: successor weights U[a][j] accumulate u·v; the residual set is normalised by its sum W "
                   "(W⁻¹·R[p]) and the arc carries W; the final weight of a subset state sums Q[q]·stop[q]",
                   "subset construction conserves weight")
    f = P.func("wfsa/base.py::WFSA.determinize")
    gens = [g for g in P.funcs.values() if g.outer is f and any(isinstance(n, ast.Yield) for n in walk_live(g.node))]
    if len(gens) != 1:
        raise AnalysisError("wfsa/base.py::WFSA.determinize: nested generator of successor subsets not found")
    pa = gens[0]
    r.looked_at(f, pa)
    acc = [n for n in walk_live(pa.node) if isinstance(n, ast.AugAssign) and isinstance(n.op, ast.Add) and isinstance(n.target, ast.Subscript)]
    ok = len(acc) == 1
    if ok:
        lp = _loop_of(acc[0], norm(acc[0].target.slice))
        num, den = W.cfactors(pa.node, acc[0].value, acc[0])
        lq = [a for a in ancestors(acc[0]) if isinstance(a, ast.For)]
        names = set()
        for a in lq:
            if isinstance(a.target, ast.Tuple):
                names.add(W.cnorm(pa.node, a.target.elts[-1], acc[0]))
        ok = len(num) == 2 and set(num) <= names and not den
    r.add(pa, acc[0] if acc else pa.node, ok, "" if ok else "successor weights must accumulate (+=) the product of the subset weight and the arc weight")
    ys = [n for n in walk_live(pa.node) if isinstance(n, ast.Yield)]
    if not ys:
        raise AnalysisError("_powerarcs: no yield")
    for y in ys:
        t = y.value
        ok = False
        slots = {}
        if isinstance(t, ast.Tuple) and len(t.elts) == 3:
            wsum = t.elts[2]
            wd = W.deref(pa.node, wsum)
            resid = t.elts[1]
            comp = next((x for x in ast.walk(resid) if isinstance(x, ast.DictComp)), None)
            if comp is not None and isinstance(wd, ast.Call) and W.call_name(wd) == "sum":
                num, den = W.cfactors(pa.node, comp.value, comp.value)
                g0 = comp.generators[0]
                rset = norm(_strip_items(g0.iter))
                if isinstance(g0.target, ast.Tuple) and len(g0.target.elts) == 2:
                    # {p: v / W for p, v in R.items()}
                    num = [x if x != norm(g0.target.elts[1]) else f"{rset}[{norm(g0.target.elts[0])}]" for x in num]
                crset = W.cnorm(pa.node, _strip_items(g0.iter), y)
                ckey = W.cnorm(pa.node, comp.key, comp.key)
                cw = W.cnorm(pa.node, wsum, y)
                ok = den in ([norm(wsum)], [cw]) and num in ([f"{rset}[{norm(comp.key)}]"], [f"{crset}[{ckey}]"], [f"{rset}[{ckey}]"], [f"{crset}[{norm(comp.key)}]"]) \
                    and W.cnorm(pa.node, wd.args[0], y) == W.cnorm(pa.node, ast.parse(f"{rset}.values()", mode="eval").body, y)
                slots = dict(residual=norm(comp.value), arc_weight=norm(wsum), W=norm(wd))
            elif comp is None:
                r.undecided(pa, y, f"`{first_line(y)}`: the residual set `{norm(resid)}` is built elsewhere (not a dict comprehension here)",
                            construct="_powerarcs: normalised residuals")
                continue
        r.add(pa, y, ok, "" if ok else f"`{first_line(y)}`: residuals must be R[p]/W with W = sum(R.values()) and the arc weight W", slots=slots)
    addF = _adds(f, names=("add_F",))
    ok = len(addF) == 1
    if ok:
        c = addF[0]
        q = norm(c.args[0])
        num, den = W.cfactors(f.node, c.args[1], c)
        lp = [a for a in ancestors(c) if isinstance(a, ast.For)]
        inner = norm(lp[0].target) if lp else "?"
        ok = num == sorted([f"{q}[{inner}]", f"self.stop[{inner}]"]) and not den and norm(lp[0].iter) == q
    r.add(f, addF[0] if addF else f.node, ok, "" if ok else "final weight of a subset state must sum Q[q]·stop[q] over q ∈ Q")
    # every subset state gets its final weight, the initial one included: the pass runs over all states of the result after the
    # exploration, not only for the subsets discovered inside the exploration loop
    for c in addF:
        wl = next((a for a in ancestors(c) if isinstance(a, ast.While)), None)
        if wl is not None:
            seeded = [x for x in addF if x is not c and not any(isinstance(a, ast.While) for a in ancestors(x))]
            ok2 = bool(seeded)
            r.add(f, c, ok2, "" if ok2 else f"`{first_line(c)}` assigns final weights only to subsets discovered inside the exploration loop: the initial subset is "
                  f"put on the stack before the loop and never gets one, so the empty string (and every string accepted in the initial subset) "
                  f"loses its weight", construct="determinize: final weights of every subset state")
        else:
            lp = [a for a in ancestors(c) if isinstance(a, ast.For)]
            ok2 = bool(lp) and norm(lp[-1].iter).endswith(".states")
            if ok2:
                r.add(f, c, True, construct="determinize: final weights of every subset state", nontrivial=False)
            else:
                r.undecided(f, c, "the final-weight pass does not range over the states of the result", construct="determinize: final weights of every subset state")
    r.min_instances = 4
    return r


def _strip_items(e):
    if isinstance(e, ast.Call) and isinstance(e.func, ast.Attribute) and e.func.attr in ("items", "keys") and not e.args:
        return e.func.value
    return e


def rule_factor_bytes(P):
    r = RuleResult("FACTOR-BYTES", "WFSA.to_bytes: a single-byte arc carries w; on a multi-byte chain the arc weight w occurs on exactly "
                   "one arc and all others carry R.one; ε arcs are copied with w", "byte chains conserve the arc weight")
    f = P.func("wfsa/base.py::WFSA.to_bytes")
    r.looked_at(f)
    arcs = _adds(f, names=("add_arc",))
    if len(arcs) < 3:
        raise AnalysisError("wfsa/base.py::WFSA.to_bytes: add_arc sites not found")
    loop = None
    for n in walk_live(f.node):
        if isinstance(n, ast.For) and norm(n.iter) == "self.arcs()" and isinstance(n.target, ast.Tuple):
            loop = n
    if loop is None:
        raise AnalysisError("to_bytes: loop over self.arcs() not found")
    i, a, j, w = (norm(e) for e in loop.target.elts)
    groups = {}
    for c in arcs:
        facts = W.guard_facts(c)
        key = "eps" if any(ft.pol and norm(ft.test) == f"{a} == EPSILON" for ft in facts) else \
            ("single" if any(ft.pol and "len(" in norm(ft.test) and "== 1" in norm(ft.test) for ft in facts) else "multi")
        groups.setdefault(key, []).append(c)
    if "single" not in groups and len(groups.get("multi", [])) == 2:
        # uniform chain: curr = i; for b in bs[:-1]: nxt = fresh(); add_arc(curr, b, nxt, one); curr = nxt;  add_arc(curr, bs[-1], j, w)
        inner = [c for c in groups["multi"] if len(W.enclosing_loops(c)) > 1]
        last = [c for c in groups["multi"] if len(W.enclosing_loops(c)) == 1]
        if len(inner) == 1 and len(last) == 1 and isinstance(inner[0].args[0], ast.Name) and isinstance(last[0].args[0], ast.Name):
            ic, lc = inner[0], last[0]
            lp = W.enclosing_loops(ic)[0]
            cv = ic.args[0].id
            bs = norm(lp.iter).split("[")[0]
            init = [st for st, v in W.assignments_to(f.node, cv) if v is not None and norm(v) == i and W.pos(st) < W.pos(lp) and W._within(st, loop)]
            step = [n for n in lp.body if isinstance(n, ast.Assign) and W.is_name(n.targets[0], cv) and norm(n.value) == norm(ic.args[2]) and W.pos(n) > W.pos(ic)]
            fresh = isinstance(ic.args[2], ast.Name) and any(v is not None and isinstance(v, ast.Call) and W._within(st, lp) for st, v in W.assignments_to(f.node, ic.args[2].id))
            problems = []
            star_form = None
            for st_ in walk_live(f.node):
                if isinstance(st_, ast.Assign) and isinstance(st_.targets[0], ast.Tuple) and len(st_.targets[0].elts) == 2 \
                        and isinstance(st_.targets[0].elts[0], ast.Starred) and isinstance(st_.targets[0].elts[1], ast.Name) \
                        and norm(st_.targets[0].elts[0].value) == norm(lp.iter) and ".encode(" in norm(st_.value):
                    star_form = (norm(lp.iter), st_.targets[0].elts[1].id)  # (all bytes but the last, the last byte)
            if star_form is not None:
                last_txt = star_form[1]
            else:
                last_txt = f"{bs}[-1]"
            if star_form is None and norm(lp.iter) != f"{bs}[:-1]":
                problems.append(f"the inner loop ranges over `{norm(lp.iter)}`, not over all bytes but the last")
            if not init:
                problems.append(f"`{cv}` does not start at the arc's source `{i}`")
            if not step or not fresh:
                problems.append(f"`{cv}` is not advanced to a fresh state after every byte")
            if norm(ic.args[1]) != norm(lp.target) or not W.cnorm(f.node, ic.args[3], ic).endswith(".one"):
                problems.append(f"an inner arc is `{first_line(ic)}`: it must read the loop's byte with weight one")
            if lc.args[0].id != cv or norm(lc.args[1]) != last_txt or norm(lc.args[2]) != j or W.cnorm(f.node, lc.args[3], lc) != w or W.pos(lc) < W.end_pos(lp):
                problems.append(f"the last arc `{first_line(lc)}` must leave `{cv}` on `{last_txt}` into `{j}` with weight `{w}`, after the loop")
            r.add(f, lc, not problems, "; ".join(problems), slots=dict(shape="uniform chain", weights=[W.cnorm(f.node, ic.args[3], ic), W.cnorm(f.node, lc.args[3], lc)]),
                  construct="to_bytes multi-byte branch")
            r.add(f, ic, not problems, "; ".join(problems), construct="to_bytes: chain connectivity")
            groups = {k: v for k, v in groups.items() if k != "multi"}
    for c in groups.get("eps", []):
        extra = sorted(t for t in W.cfacts(f.node, c) if t not in (f"EPSILON == {a}", f"{a} == EPSILON"))
        if extra:
            r.add(f, c, False, f"ε arcs are copied only when {extra}: the others are dropped although they carry weight (an ε self-loop multiplies every "
                  f"path through its state by star(w) in a non-idempotent semiring)", construct="to_bytes: ε arcs copied")
        else:
            r.add(f, c, True, construct="to_bytes: ε arcs copied", nontrivial=False)
    for key, cs in groups.items():
        ws = [W.cnorm(f.node, c.args[3], c) for c in cs]
        if key in ("eps", "single"):
            ok = ws == [w]
        else:
            ok = ws.count(w) == 1 and all(x == w or x.endswith(".one") for x in ws) and \
                all(not W.enclosing_loops(c) or W.cnorm(f.node, c.args[3], c).endswith(".one") or len(W.enclosing_loops(c)) == 1 for c in cs)
            # the arc carrying w must not sit in the inner loop over the middle bytes
            for c in cs:
                if W.cnorm(f.node, c.args[3], c) == w and len(W.enclosing_loops(c)) > 1:
                    ok = False
        r.add(f, cs[0], ok, "" if ok else f"{key}-byte branch emits weights {ws}: the arc weight `{w}` must be carried exactly once",
              slots=dict(branch=key, weights=ws), construct=f"to_bytes {key}-byte branch")
    # chain connectivity: the last arc of a chain leaves the state the previous arc entered
    multi = groups.get("multi", [])
    if len(multi) >= 2:
        first = next((c for c in multi if not W.enclosing_loops(c) or len(W.enclosing_loops(c)) == 1 and norm(c.args[0]) == i), None)
        last = next((c for c in multi if W.cnorm(f.node, c.args[3], c) == w), None)
        inner = [c for c in multi if len(W.enclosing_loops(c)) > 1]
        if first is not None and last is not None and isinstance(first.args[2], ast.Name) and isinstance(last.args[0], ast.Name):
            chainvar = first.args[2].id
            ok = last.args[0].id == chainvar and norm(last.args[2]) == j
            upd = True
            for c in inner:
                # inside the loop:  add_arc(chain, b, nxt, one); chain = nxt
                lp = W.enclosing_loops(c)[0]
                upd = upd and norm(c.args[0]) == chainvar and any(isinstance(n, ast.Assign) and W.is_name(n.targets[0], chainvar) and norm(n.value) == norm(c.args[2])
                                                                     for n in walk_live(lp))
            r.add(f, last, ok and upd, "" if ok and upd else f"the chain is not connected end to end: the last arc leaves `{norm(last.args[0])}` but the chain variable is "
                  f"`{chainvar}` (a stale state from an earlier, longer character when this one has only two bytes)", construct="to_bytes: chain connectivity")
        else:
            r.undecided(f, multi[0], "multi-byte chain shape not recognised", construct="to_bytes: chain connectivity")
    r.min_instances = 3
    return r


def rule_factor_locnorm(P):
    r = RuleResult("FACTOR-LOCNORM", "locally_normalize: new weight = r.w · Π Z[body] / Z[r.head] with Z = the grammar's own agenda(); "
                   "rules are copied with head and body unchanged", "local normalisation formula")
    f = P.func("cfglm.py::locally_normalize")
    r.looked_at(f)
    g = f.params[0]
    z = None
    for n in walk_live(f.node):
        if isinstance(n, ast.Assign) and isinstance(n.value, ast.Call) and W.call_name(n.value) in ("agenda",) and norm(W.receiver(n.value)) == g:
            z = n.targets[0].id
    if z is None:
        raise AnalysisError("cfglm.py::locally_normalize: Z = self.agenda(...) not found")
    sites = [c for c in _adds(f) if len(c.args) >= 2]
    if len(sites) != 1:
        raise AnalysisError("cfglm.py::locally_normalize: expected one add site")
    c = sites[0]
    lv = _loop_vars(c)
    rv = next((v for v, it in lv.items() if it == g), None)
    num, den = W.cfactors(f.node, c.args[0], c)
    ok = rv is not None and num == sorted([f"{rv}.w", f"{z}.product({rv}.body)"]) and den == [f"{z}[{rv}.head]"] \
        and norm(c.args[1]) == f"{rv}.head" and len(c.args) == 3 and isinstance(c.args[2], ast.Starred) and norm(c.args[2].value) == f"{rv}.body"
    r.add(f, c, ok, "" if ok else f"`{first_line(c)}`: factors {num} / {den}", slots=dict(num=num, den=den))
    # Chart.product multiplies self[k] for every k, starting from one
    p = P.func("chart.py::Chart.product")
    r.looked_at(p)
    aug = [n for n in walk_live(p.node) if isinstance(n, ast.AugAssign)]
    init = [n for n in walk_live(p.node) if isinstance(n, ast.Assign)]
    ok = len(aug) == 1 and isinstance(aug[0].op, ast.Mult) and isinstance(aug[0].value, ast.Subscript) and W.is_name(aug[0].value.value, "self") \
        and _loop_of(aug[0], norm(aug[0].value.slice)) is not None and norm(_loop_of(aug[0], norm(aug[0].value.slice)).iter) == p.params[1] \
        and len(init) == 1 and norm(init[0].value).endswith(".one")
    r.add(p, aug[0] if aug else p.node, ok, "" if ok else "Chart.product must be the product of self[k] over the keys, starting from one")
    r.min_instances = 2
    return r


# ---------------------------------------------------------------- ACCUM-DELTA (derivative)


def rule_accum_delta(P):
    r = RuleResult("ACCUM-DELTA", "CFG.derivative: the nullable-prefix factor `delta` starts at R.one for each rule and is only ever "
                   "multiplied by the null weight of the symbol just passed (`delta *= U[y]`, last statement of the position loop); "
                   "each emitted rule carries delta · r.w and the suffix r.body[k+1:]", "derivative weights: product of the skipped null weights")
    f = P.func("cfg.py::CFG.derivative")
    r.looked_at(f)
    # every slash symbol of one derivative carries the level index `i` the caller asked for
    lvl = f.params[2] if len(f.params) > 2 else None
    n_slash = 0
    if lvl is not None:
        for c in walk_live(f.node, into_nested=True):
            if not isinstance(c, ast.Call) or not isinstance(c.func, ast.Name):
                continue
            nm = c.func.id
            tgt = None
            if nm == "Slash":
                tgt = ("ctor", ["Y", "Z", "i"])
            else:
                nested = [g for g in P.funcs.values() if g.outer is f and g.name == nm]
                modf = P.funcs.get(f"cfg.py::{nm}")
                g = nested[0] if nested else modf
                if g is not None and any(isinstance(x, ast.Call) and W.call_name(x) == "Slash" for x in ast.walk(g.node)):
                    if nested:
                        continue  # a closure: it reads the enclosing `i` itself (its own Slash(...) call is checked as a ctor)
                    tgt = ("helper", list(g.params))
            if tgt is None:
                continue
            n_slash += 1
            params = tgt[1]
            lv_param = params[2] if tgt[0] == "ctor" else next((p_ for p_ in params if p_ in ("i", lvl, "level", "idx")), None)
            passed = None
            if lv_param is not None:
                idx = params.index(lv_param)
                if len(c.args) > idx:
                    passed = c.args[idx]
                for kw in c.keywords:
                    if kw.arg == lv_param:
                        passed = kw.value
            ok = passed is not None and W.is_name(passed, lvl)
            r.add(f, c, ok, "" if ok else f"`{norm(c)}` does not carry the level index `{lvl}` of this derivative ({'it falls back to the default' if passed is None else 'it passes ' + norm(passed)}): "
                  f"for {lvl} != 0 the rule body points at a level-0 symbol that has no rules here, so every derivation through a leftmost "
                  f"nonterminal is lost", construct=f"derivative: level index of {norm(c)}", nontrivial=not ok)
        if n_slash == 0:
            r.undecided(f, f.node, "no Slash(...) construction found in derivative", construct="derivative: level index")
    u = None
    for n in walk_live(f.node):
        if isinstance(n, ast.Assign) and isinstance(n.value, ast.Call) and W.call_name(n.value) == "null_weight":
            u = n.targets[0].id
    if u is None:
        raise AnalysisError("cfg.py::CFG.derivative: U = self.null_weight() not found")
    # the nullable-prefix factor: the local (re)initialised to R.one inside the loop over the rules
    dname = None
    for n in walk_live(f.node):
        if isinstance(n, ast.Assign) and isinstance(n.targets[0], ast.Name) and norm(n.value).endswith(".one") and W.enclosing_loops(n):
            dname = n.targets[0].id
    if dname is None:
        raise AnalysisError("cfg.py::CFG.derivative: nullable-prefix factor (initialised to R.one per rule) not found")
    upd = [n for n in walk_live(f.node) if isinstance(n, (ast.AugAssign, ast.Assign)) and
           any(W.is_name(t, dname) for t in ([n.target] if isinstance(n, ast.AugAssign) else n.targets))]
    inits = [n for n in upd if isinstance(n, ast.Assign)]
    augs = [n for n in upd if isinstance(n, ast.AugAssign)]
    inner = None
    for n in walk_live(f.node):
        if isinstance(n, ast.For) and isinstance(n.iter, ast.Call) and W.call_name(n.iter) == "enumerate" and ".body" in norm(n.iter):
            inner = n
    if inner is None or not upd:
        raise AnalysisError("cfg.py::CFG.derivative: position loop / delta not found")
    k, y = (norm(e) for e in inner.target.elts)
    ok_init = len(inits) == 1 and norm(inits[0].value).endswith(".one") and not W._within(inits[0], inner) and len(W.enclosing_loops(inits[0])) == 1
    r.add(f, inits[0] if inits else f.node, ok_init, "" if ok_init else f"{dname} must be (re)initialised to R.one once per rule, outside the position loop")
    ok_aug = len(augs) == 1 and isinstance(augs[0].op, ast.Mult) and W.cnorm(f.node, augs[0].value, augs[0]) == W.cnorm(f.node, ast.parse(f"{u}[{y}]", mode="eval").body, augs[0]) \
        and inner.body[-1] is augs[0]
    r.add(f, augs[0] if augs else (inits[-1] if inits else f.node), ok_aug,
          "" if ok_aug else f"the only update of {dname} must be `{dname} *= {u}[{y}]` as the last statement of the position loop: "
                            f"with two nullable symbols before the differentiated one the factor is their product",
          slots=dict(updates=[first_line(x) for x in upd]))
    for c in [c for c in _adds(f) if not _verbatim_copy(c) and len(c.args) >= 2]:
        num, den = W.cfactors(f.node, c.args[0], c)
        rv = next((v for v, it in _loop_vars(c).items() if it == "self"), "r")
        st = [a.value for a in c.args if isinstance(a, ast.Starred)]
        ok = num == sorted([dname, f"{rv}.w"]) and not den and len(st) == 1 and W.cnorm(f.node, st[0], c) == f"{rv}.body[{k} + 1:]"
        r.add(f, c, ok, "" if ok else f"`{first_line(c)}`: weight must be {dname}·{rv}.w and the body the suffix after position {k}",
              slots=dict(factors=num, suffix=norm(st[0]) if st else None))
    # re-deriving a grammar that already contains the slashed symbols must not add their rules again
    slash_sites = [c for c in _adds(f) if not _verbatim_copy(c) and len(c.args) >= 2]
    for c in slash_sites:
        facts = W.cfacts(f.node, c)
        head = W.cnorm(f.node, c.args[1], c)
        ok = any(x in facts for x in (f"{head} not in self.N", f"not {head} in self.N"))
        r.add(f, c, ok, "" if ok else f"`{first_line(c)}` is not guarded by `{head} not in self.N`: deriving a derivative grammar again (same index) "
              f"adds the slashed rules a second time and doubles the completions", construct=f"derivative: guard of {first_line(c)}")
    # every body position contributes: the terminal / nonterminal case split is exhaustive (a third arm that emits nothing drops
    # the slash rule of that position, e.g. the geometric factor of a unary self-loop X -> X)
    yk = W.cnorm(f.node, ast.parse(y, mode="eval").body, inner.body[-1])
    for c in slash_sites:
        facts = {x for x in W.cfacts(f.node, c) if not x.endswith("in self.N")}
        term = [x for x in facts if "is_terminal(" in x or "is_nonterminal(" in x]
        if not term:
            r.undecided(f, c, f"`{first_line(c)}`: no is_terminal case split among its guards {sorted(facts)}", construct="derivative: case split per position")
            continue
        if term[0].startswith("not ") == ("is_terminal(" in term[0]):  # not is_terminal(y)  /  is_nonterminal(y)
            extra = sorted(facts - {term[0]})
            ok = not extra
            r.add(f, c, ok, "" if ok else f"the slash rule of a nonterminal position is emitted only when {' and '.join(extra)}: the other nonterminal "
                  f"positions contribute nothing to the derivative, although every derivation that starts inside them is part of the prefix weight",
                  construct="derivative: nonterminal positions all contribute", slots=dict(guards=sorted(facts)))
    r.min_instances = 7
    return r


# ---------------------------------------------------------------- FACTOR-CKY


def rule_factor_cky(P):
    r = RuleResult("FACTOR-CKY", "CFG._parse_chart: the binary update is c[i,X,k] += r.w · c[i,Y,j] · c[j,Z,k] with (X, [Y, Z]) = (head, body) "
                   "of the same rule and spans chaining i–j–k; preterminal cells c[i,head,i+1] += r.w; the nullary weight at (i,S,i)",
                   "CKY recurrences are well-formed")
    f = P.func("cfg.py::CFG._parse_chart")
    r.looked_at(f)
    augs = [n for n in walk_live(f.node) if isinstance(n, ast.AugAssign) and isinstance(n.op, ast.Add) and isinstance(n.target, ast.Subscript)]
    if len(augs) != 3:
        raise AnalysisError(f"cfg.py::CFG._parse_chart: expected 3 chart updates, found {len(augs)}")
    for a in augs:
        idx = a.target.slice
        if not (isinstance(idx, ast.Tuple) and len(idx.elts) == 3):
            raise AnalysisError("_parse_chart: chart index is not (i, X, k)")
        raw_i, raw_x, raw_k = (norm(e) for e in idx.elts)
        i, x, k = (W.cnorm(f.node, e, a) for e in idx.elts)
        cn = norm(a.target.value)
        num, den = W.cfactors(f.node, a.value, a)
        fn, _ = W.factor_nodes(W.canon_ast(f.node, a.value, a))
        cells = [n for n in fn if isinstance(n, ast.Subscript) and norm(n.value) == cn]
        if len(cells) == 2:
            # binary
            (i1, y1, j1), (i2, y2, j2) = ([norm(e) for e in c.slice.elts] for c in cells)
            if i1 != i:
                (i1, y1, j1), (i2, y2, j2) = (i2, y2, j2), (i1, y1, j1)
            unpack = None
            for n in walk_live(f.node):
                if isinstance(n, ast.Assign) and isinstance(n.targets[0], ast.Tuple) and norm(n.value).endswith(".head, r.body") or \
                        (isinstance(n, ast.Assign) and isinstance(n.targets[0], ast.Tuple) and ".head" in norm(n.value) and ".body" in norm(n.value)):
                    unpack = n
            ok = False
            if unpack is None:
                r.undecided(f, a, "binary CKY update: the rule's (head, [left, right]) unpacking is not recognised", construct="_parse_chart: binary update")
                continue
            if unpack is not None:
                t = unpack.targets[0]
                names = [norm(e) for e in ast.walk(t) if isinstance(e, ast.Name)]
                rv = norm(unpack.value.elts[0]).rsplit(".", 1)[0] if isinstance(unpack.value, ast.Tuple) else "r"
                if len(names) == 3:
                    X, Y, Z = (W.ctext(f.node, nm, a) for nm in names)
                    ok = (i1, j1, i2, j2) == (i, j1, j1, k) and j1 == i2 and x == X and y1 == Y and y2 == Z and f"{rv}.w" in num and len(num) == 3
                    # the split point ranges strictly inside (i, k)
                    lp = _loop_of(a, j1)
                    ok = ok and lp is not None and W.cnorm(f.node, lp.iter, lp) == W.ctext(f.node, f"range({raw_i} + 1, {raw_k})", lp)
            r.add(f, a, ok, "" if ok else f"`{first_line(a)}` is not c[i,X,k] += r.w·c[i,Y,j]·c[j,Z,k] with i<j<k", slots=dict(factors=num))
        elif len(cells) == 0 and len(num) == 1 and num[0].endswith(".w"):
            rv = num[0][:-2]
            lp = _loop_of(a, rv)
            ok = x == f"{rv}.head" and k == f"{i} + 1" and lp is not None and W.citer(f.node, lp).startswith("terminal[") and f"[{raw_i}]" in W.citer(f.node, lp)
            r.add(f, a, ok, "" if ok else f"`{first_line(a)}` is not the preterminal update c[i, r.head, i+1] += r.w for rules of xs[i]", slots=dict(factors=num))
        else:
            ok = x == "self.S" and i == k and len(num) == 1
            r.add(f, a, ok, "" if ok else f"`{first_line(a)}` is not the nullary update at (i, S, i)", slots=dict(factors=num))
    r.min_instances = 3
    return r


# ---------------------------------------------------------------- FACTOR-NULLPUSH


def rule_factor_nullpush(P):
    r = RuleResult("FACTOR-NULLPUSH", "_push_null_weights expands every rule over the power set of its body POSITIONS "
                   "(product([0,1], repeat=len(body))): position i is either dropped, multiplying the weight by the null weight of "
                   "body[i], or kept as f(body[i]); the weight starts from r.w. Deciding per distinct symbol instead of per position "
                   "loses the derivations in which only some copies of a repeated nullable symbol are empty",
                   "null removal enumerates drop/keep per body position")
    f = P.func("cfg.py::CFG._push_null_weights")
    r.looked_at(f)
    nw = f.params[1]
    outer = [n for n in walk_live(f.node) if isinstance(n, ast.For) and isinstance(n.iter, ast.Call) and W.call_name(n.iter) == "product"]
    if len(outer) != 1:
        r.add(f, f.node, False, "no loop over product([0, 1], repeat=len(r.body)) found", construct="_push_null_weights: power set over positions")
        r.min_instances = 1
        return r
    lp = outer[0]
    rv = next((v for v, it in _loop_vars(lp).items() if it in ("self", "self.rules")), None)
    rep = next((k.value for k in lp.iter.keywords if k.arg == "repeat"), None)
    ok = rv is not None and rep is not None and W.cnorm(f.node, rep, lp) == f"len({rv}.body)" and lp.iter.args and norm(lp.iter.args[0]) in ("[0, 1]", "(0, 1)", "[1, 0]", "(1, 0)", "[False, True]", "(False, True)")
    r.add(f, lp, ok, "" if ok else f"`{first_line(lp)}`: the enumeration is not over one bit per body position of the rule",
          slots=dict(repeat=norm(rep) if rep is not None else None))
    if not ok:
        r.min_instances = 1
        return r
    B = lp.target.id if isinstance(lp.target, ast.Name) else None
    muls = [n for n in walk_live(lp) if isinstance(n, ast.AugAssign) and isinstance(n.op, ast.Mult)]
    apps = [n for n in walk_live(lp) if isinstance(n, ast.Call) and W.call_name(n) == "append"]
    import re as _re
    okm = oka = False
    idx = None
    if len(muls) == 1:
        m = _re.match(rf"^{_re.escape(nw)}\[{_re.escape(rv)}\.body\[(.+)\]\]$", W.cnorm(f.node, muls[0].value, muls[0]))
        if m:
            idx = m.group(1)
            okm = f"{B}[{idx}]" in W.cfacts(f.node, muls[0])
    if len(apps) == 1 and idx is not None and isinstance(apps[0].args[0], ast.Call) and len(apps[0].args[0].args) == 1:
        oka = W.cnorm(f.node, apps[0].args[0].args[0], apps[0]) == f"{rv}.body[{idx}]" and f"not {B}[{idx}]" in W.cfacts(f.node, apps[0])
    r.add(f, muls[0] if muls else lp, okm, "" if okm else "a dropped position must multiply the weight by the null weight of the symbol at that position")
    r.add(f, apps[0] if apps else lp, oka, "" if oka else "a kept position must append the (renamed) symbol at that same position")
    inner = [a for a in (ancestors(muls[0]) if muls else []) if isinstance(a, ast.For) and a is not lp and W._within(a, lp)]
    # v starts from r.w
    vname = norm(muls[0].target) if muls else "v"
    init_ok = False
    for n in walk_live(lp):
        if isinstance(n, ast.Assign) and W._within(n, lp) and not (inner and W._within(n, inner[0])):
            t = n.targets[0]
            if isinstance(t, ast.Tuple) and isinstance(n.value, ast.Tuple):
                for a, bb in zip(t.elts, n.value.elts):
                    if norm(a) == vname and norm(bb) == f"{rv}.w":
                        init_ok = True
            elif norm(t) == vname and norm(n.value) == f"{rv}.w":
                init_ok = True
    r.add(f, lp, init_ok, "" if init_ok else f"the weight accumulator must start from {rv}.w for every subset", construct="_push_null_weights: weight starts from r.w")
    r.min_instances = 4
    return r


# ---------------------------------------------------------------- FACTOR-REVERSE


def rule_factor_reverse(P):
    r = RuleResult("FACTOR-REVERSE", "WFSA.reverse swaps source and target of every arc (same label and weight), makes the final "
                   "weights initial and the initial weights final, through the construction API", "reversal is the mirror image")
    f = P.func("wfsa/base.py::WFSA.reverse")
    r.looked_at(f)
    arcs = _adds(f, names=("add_arc", "set_arc"))
    ok = len(arcs) == 1
    if ok:
        c = arcs[0]
        lp = _loop_of(c, norm(c.args[0]))
        ok = lp is not None and norm(lp.iter) == "self.arcs()" and isinstance(lp.target, ast.Tuple) and len(lp.target.elts) == 4
        if ok:
            i, a, j, w = (norm(e) for e in lp.target.elts)
            ok = [norm(x) for x in c.args] == [j, a, i, w] and c.func.attr == "add_arc"
    r.add(f, arcs[0] if arcs else f.node, ok, "" if ok else "arcs must be re-added as (target, label, source, weight)")
    for api, src in (("add_I", "self.F"), ("add_F", "self.I")):
        cs = _adds(f, names=(api,))
        ok = len(cs) == 1
        if ok:
            c = cs[0]
            lp = _loop_of(c, norm(c.args[0]))
            ok = lp is not None and norm(lp.iter) == src and [norm(x) for x in c.args] == [norm(e) for e in lp.target.elts]
        r.add(f, cs[0] if cs else f.node, ok, "" if ok else f"{api} must be called for every (state, weight) of {src}", construct=f"reverse: {api} from {src}")
    r.min_instances = 3
    return r


# ---------------------------------------------------------------- FACTOR-FROMPAIRS


def rule_factor_frompairs(P):
    r = RuleResult("FACTOR-FROMPAIRS", "FST.from_pairs builds, for the i-th pair, the chain (i,0) -(x,y)-> (i,1) ... over zip_longest(xs, ys, "
                   "fillvalue=EPSILON), enters it from the initial state at (i, 0) and leaves it to the final state from "
                   "(i, max(len(xs), len(ys))) — the end of that pair's own chain", "every pair's chain is connected end to end")
    f = P.func("fst.py::FST.from_pairs")
    r.looked_at(f)
    arcs = _adds(f, names=("add_arc",))
    outer = [n for n in walk_live(f.node) if isinstance(n, ast.For) and isinstance(n.iter, ast.Call) and W.call_name(n.iter) == "enumerate"
             and norm(n.iter.args[0]) == f.params[0]]
    if len(outer) != 1 or len(arcs) != 3:
        raise AnalysisError("fst.py::FST.from_pairs: expected the pair loop and three add_arc sites")
    lp = outer[0]
    i = norm(lp.target.elts[0])
    xs, ys = (norm(e) for e in lp.target.elts[1].elts)
    init = [norm(c.args[0]) for c in _adds(f, names=("add_I",))]
    fin = [norm(c.args[0]) for c in _adds(f, names=("add_F",))]
    inner = [n for n in walk_live(lp) if isinstance(n, ast.For) and n is not lp]
    chain = [c for c in arcs if inner and W._within(c, inner[0])]
    entry = [c for c in arcs if c not in chain and init and norm(c.args[0]) == init[0]]
    exit_ = [c for c in arcs if c not in chain and c not in entry]
    ok = len(chain) == 1 and len(entry) == 1 and len(exit_) == 1 and len(init) == 1 and len(fin) == 1
    if ok:
        il = inner[0]
        it = norm(il.iter)
        j = norm(il.target.elts[0]) if isinstance(il.target, ast.Tuple) else "?"
        okc = it == f"enumerate(zip_longest({xs}, {ys}, fillvalue=EPSILON))" and W.cnorm(f.node, chain[0].args[0], chain[0]) == f"({i}, {j})" \
            and W.cnorm(f.node, chain[0].args[2], chain[0]) == f"({i}, {j} + 1)"
        r.add(f, chain[0], okc, "" if okc else "chain arcs must go (i, j) → (i, j+1) over enumerate(zip_longest(xs, ys, fillvalue=EPSILON))")
        oke = W.cnorm(f.node, entry[0].args[2], entry[0]) == f"({i}, 0)" and W._within(entry[0], lp) and not W._within(entry[0], il)
        r.add(f, entry[0], oke, "" if oke else "each pair's chain must be entered at (i, 0)")
        src = W.cnorm(f.node, exit_[0].args[0], exit_[0])
        okx = src in (f"({i}, max(len({xs}), len({ys})))", f"({i}, max(len({ys}), len({xs})))") and norm(exit_[0].args[2]) == fin[0] \
            and W._within(exit_[0], lp) and not W._within(exit_[0], il)
        r.add(f, exit_[0], okx, "" if okx else f"the exit arc must leave from (i, max(len(xs), len(ys))), the end of this pair's chain; it leaves from `{src}` "
              f"(a counter carried over from the inner loop is stale for an empty pair)")
    else:
        r.add(f, f.node, False, "entry / chain / exit arcs of from_pairs not recognised", construct="from_pairs structure")
    r.min_instances = 3
    return r
