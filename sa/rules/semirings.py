"""SR-TABLE (C16): recognise each shipped weight type as a canonical closed semiring.

Method bodies are brought into a canonical algebraic form (polynomial normal form over the atoms self.score[k] /
other.score[k], order- and parenthesisation-insensitive; local single assignments inlined) and compared with the
canonical definition of the semiring, which is written in the same mini-language.  Identity short-cuts
(`is zero`, `== zero`, `is one`) must return what the law prescribes.  Unrecognised bodies are *undecided*
(ANALYSIS-ERROR), never passed.
"""

from __future__ import annotations

import ast
from fractions import Fraction

from ..model import AnalysisError, norm, walk_live, first_line
from ..report import RuleResult, ModSite
from .. import walk as W


# ---------------------------------------------------------------- canonical polynomial form
# poly: dict {monomial(tuple of sorted atom strings): Fraction}


def p_const(c):
    c = Fraction(c)
    return {(): c} if c != 0 else {}


def p_atom(a):
    return {(a,): Fraction(1)}


def p_add(a, b):
    out = dict(a)
    for m, c in b.items():
        out[m] = out.get(m, 0) + c
        if out[m] == 0:
            del out[m]
    return out


def p_mul(a, b):
    out = {}
    for m1, c1 in a.items():
        for m2, c2 in b.items():
            m = tuple(sorted(m1 + m2))
            out[m] = out.get(m, 0) + c1 * c2
            if out[m] == 0:
                del out[m]
    return out


def p_neg(a):
    return {m: -c for m, c in a.items()}


def p_key(a):
    return tuple(sorted((m, str(c)) for m, c in a.items()))


def p_str(a):
    if not a:
        return "0"
    parts = []
    for m, c in sorted(a.items()):
        parts.append(("" if c == 1 and m else str(c) + ("*" if m else "")) + "*".join(m))
    return " + ".join(parts)


class Canon:
    """expression -> polynomial over atoms; atoms for self/other components are s, o, s0, s1, o0, o1"""

    def __init__(self, fnode, params, cls_name, comps=1):
        self.fnode = fnode
        self.self_name = params[0] if params else "self"
        self.other_name = params[1] if len(params) > 1 else None
        self.cls = cls_name
        self.env = {}
        self.plain = False  # Float: operands are the numbers themselves

    def bind_unpack(self, target, value):
        """p, r = self.score"""
        who = self.who(value)
        if who and isinstance(target, (ast.Tuple, ast.List)):
            for k, t in enumerate(target.elts):
                if isinstance(t, ast.Name):
                    self.env[t.id] = p_atom(f"{who}{k}")
            return True
        return False

    def who(self, e):
        """'s' / 'o' if e is self.score / other.score"""
        if isinstance(e, ast.Attribute) and e.attr == "score" and isinstance(e.value, ast.Name):
            if e.value.id == self.self_name:
                return "s"
            if e.value.id == self.other_name:
                return "o"
        return None

    def poly(self, e):
        if isinstance(e, ast.Constant) and isinstance(e.value, (int, float)) and not isinstance(e.value, bool):
            return p_const(Fraction(str(e.value)))
        if isinstance(e, ast.Name):
            if e.id in self.env:
                return self.env[e.id]
            if self.plain and e.id == self.self_name:
                return p_atom("s")
            if self.plain and e.id == self.other_name:
                return p_atom("o")
            return p_atom(e.id)
        w = self.who(e)
        if w:
            return p_atom(w)
        if isinstance(e, ast.Subscript) and self.who(e.value) and isinstance(e.slice, ast.Constant):
            return p_atom(f"{self.who(e.value)}{e.slice.value}")
        if isinstance(e, ast.BinOp):
            if isinstance(e.op, ast.Add):
                return p_add(self.poly(e.left), self.poly(e.right))
            if isinstance(e.op, ast.Sub):
                return p_add(self.poly(e.left), p_neg(self.poly(e.right)))
            if isinstance(e.op, ast.Mult):
                return p_mul(self.poly(e.left), self.poly(e.right))
            if isinstance(e.op, ast.Div):
                den = self.poly(e.right)
                if list(den.keys()) == [()]:
                    return p_mul(self.poly(e.left), p_const(1 / den[()]))
                return p_mul(self.poly(e.left), p_atom(f"inv({p_str(den)})"))
        if isinstance(e, ast.UnaryOp) and isinstance(e.op, ast.USub):
            return p_neg(self.poly(e.operand))
        if isinstance(e, ast.Call) and norm(e.func) == "float" and len(e.args) == 1 and isinstance(e.args[0], ast.Constant) \
                and isinstance(e.args[0].value, str) and e.args[0].value.strip().lower().lstrip("+-") in ("inf", "infinity"):
            return p_neg(p_atom("inf")) if e.args[0].value.strip().startswith("-") else p_atom("inf")
        if isinstance(e, ast.Call):
            nm = norm(e.func)
            args = [self.poly(a) for a in e.args]
            if nm in ("max", "min"):
                return p_atom(f"{nm}({', '.join(sorted(p_str(a) for a in args))})")
            if nm in ("np.log", "np.exp", "np.log1p", "abs", "np.log2", "math.log", "math.exp", "np.abs", "math.log1p"):
                short = nm.split(".")[-1]
                # log(1 + x) == log1p(x)
                if short == "log":
                    a = args[0]
                    if a.get((), 0) == 1:
                        rest = dict(a)
                        del rest[()]
                        return p_atom(f"log1p({p_str(rest)})")
                return p_atom(f"{short}({p_str(args[0])})")
            if nm in ("np.logaddexp",):
                return p_atom(f"logaddexp({', '.join(sorted(p_str(a) for a in args))})")
        if isinstance(e, ast.Attribute) and norm(e) in ("np.inf", "math.inf", "numpy.inf", "np.Inf", "np.infty"):
            return p_atom("inf")
        if isinstance(e, ast.Attribute) and norm(e) in ("np.NINF", "numpy.NINF"):
            return p_neg(p_atom("inf"))
        # finite limits of the float type: a value, not an infinity (it is neither absorbing for + nor neutral for max/min on all scores)
        if isinstance(e, ast.Attribute) and e.attr in ("min", "max", "tiny", "eps", "smallest_normal") and \
                (("finfo(" in norm(e.value) or "iinfo(" in norm(e.value)) or norm(e.value) in ("sys.float_info", "float_info")):
            return p_atom(f"finite[{norm(e)}]")
        if isinstance(e, ast.Attribute) and norm(e) in ("sys.maxsize",):
            return p_atom(f"finite[{norm(e)}]")
        raise AnalysisError(f"semiring body: expression `{norm(e)}` not understood")


def parse_template(src, self_name="self", other_name="other", plain=False):
    """template polynomial in the same mini-language: atoms s, o, s0, s1, o0, o1, inf"""
    tree = ast.parse(src, mode="eval").body
    c = Canon(None, [self_name, other_name], "T")
    return c.poly(tree)


# ---------------------------------------------------------------- method summaries


class Case:
    def __init__(self, guards, kind, value, node):
        self.guards = guards  # list of (text, pol)
        self.kind = kind  # 'self' | 'other' | 'zero' | 'one' | 'ctor' | 'poly'
        self.value = value  # for ctor: tuple of polys (constructor args); for poly: the polynomial
        self.node = node


def summarise(P, f, cls_name, plain=False):
    """list of Cases, one per execution path of a small loop-free method (assignments are substituted along the path)"""
    c = Canon(f.node, f.params, cls_name)
    c.plain = plain
    cases = []

    def guard_text(test, pol):
        t = test
        while isinstance(t, ast.UnaryOp) and isinstance(t.op, ast.Not):
            t, pol = t.operand, not pol
        if isinstance(t, ast.Compare) and len(t.ops) == 1 and isinstance(t.ops[0], (ast.Gt, ast.Lt, ast.GtE, ast.LtE)):
            try:
                l, r_ = p_str(c.poly(t.left)), p_str(c.poly(t.comparators[0]))
                op = type(t.ops[0])
                if not pol:
                    op = {ast.Gt: ast.LtE, ast.Lt: ast.GtE, ast.GtE: ast.Lt, ast.LtE: ast.Gt}[op]
                if op in (ast.Lt, ast.LtE):
                    l, r_, op = r_, l, {ast.Lt: ast.Gt, ast.LtE: ast.GtE}[op]
                return (f"{l} {'>' if op is ast.Gt else '>='} {r_}", True)
            except AnalysisError:
                pass
        return (norm(t), pol)

    def bind(t, v):
        if c.bind_unpack(t, v):
            return
        if isinstance(t, (ast.Tuple, ast.List)) and isinstance(v, (ast.Tuple, ast.List)) and len(t.elts) == len(v.elts):
            vals = []
            for ve in v.elts:
                try:
                    vals.append(c.poly(ve))
                except AnalysisError:
                    vals.append(None)
            for te, pv in zip(t.elts, vals):
                if isinstance(te, ast.Name) and pv is not None:
                    c.env[te.id] = pv
            return
        if isinstance(t, ast.Name):
            try:
                c.env[t.id] = c.poly(v)
            except AnalysisError:
                c.env.pop(t.id, None)

    def walk(stmts, guards):
        for i, st in enumerate(stmts):
            if isinstance(st, ast.Expr) and isinstance(st.value, ast.Constant):
                continue
            if isinstance(st, ast.Assign) and len(st.targets) == 1:
                bind(st.targets[0], st.value)
                continue
            if isinstance(st, ast.If) and isinstance(st.test, ast.BoolOp) and len(st.test.values) >= 2:
                # `if A or B: X else: Y`  ==  `if A: X elif B: X else: Y` ;  `if A and B: X else: Y`  ==  `if A: (if B: X else: Y) else: Y`
                a_, rest_ = st.test.values[0], st.test.values[1:]
                b_ = rest_[0] if len(rest_) == 1 else ast.BoolOp(op=st.test.op, values=list(rest_))
                if isinstance(st.test.op, ast.Or):
                    inner = ast.If(test=b_, body=st.body, orelse=st.orelse)
                    st = ast.If(test=a_, body=st.body, orelse=[inner])
                else:
                    inner = ast.If(test=b_, body=st.body, orelse=st.orelse)
                    st = ast.If(test=a_, body=[inner], orelse=st.orelse)
                ast.copy_location(st, stmts[i]); ast.copy_location(inner, stmts[i])
            if isinstance(st, ast.If):
                saved = dict(c.env)
                walk(list(st.body) + list(stmts[i + 1:]), guards + [guard_text(st.test, True)])
                c.env = dict(saved)
                walk(list(st.orelse) + list(stmts[i + 1:]), guards + [guard_text(st.test, False)])
                c.env = saved
                return
            if isinstance(st, ast.Return):
                if st.value is not None:
                    kind, val = classify_value(c, st.value, cls_name, f)
                    cases.append(Case(list(guards), kind, val, st))
                return
            if isinstance(st, (ast.Pass, ast.Assert)):
                continue
            raise AnalysisError(f"{f.qual}: statement `{first_line(st)}` not understood")

    walk(f.node.body, [])
    return c, cases


def classify_value(c, v, cls_name, f):
    sn, on = c.self_name, c.other_name
    if isinstance(v, ast.Name):
        if v.id == sn:
            return "self", None
        if v.id == on:
            return "other", None
    if isinstance(v, ast.Attribute) and v.attr in ("zero", "one") and isinstance(v.value, ast.Name) and v.value.id in (sn, cls_name, "cls"):
        return v.attr, None
    if isinstance(v, ast.Call) and isinstance(v.func, ast.Name) and v.func.id in (cls_name, "cls"):
        return "ctor", tuple(c.poly(a) for a in v.args)
    if c.plain:
        return "poly", c.poly(v)
    raise AnalysisError(f"{f.qual}: return value `{norm(v)}` not understood")


def _guard_identity(g, c, cls_name):
    """('self'|'other', 'zero'|'one') if the guard text is an identity short-cut test"""
    txt, pol = g
    if not pol:
        return None
    for who, name in (("self", c.self_name), ("other", c.other_name)):
        for const in ("zero", "one"):
            for owner in (c.self_name, cls_name):
                for op in ("is", "=="):
                    if txt == f"{name} {op} {owner}.{const}":
                        return who, const
    return None


# canonical definitions: (add, mul, star, zero, one, metric) ; tuples are constructor-argument polynomials
T = parse_template
CANON = {
    "Real": dict(add=(T("s + o"),), mul=(T("s * o"),), star=(T("1 / (1 - s)"),), zero=(T("0"),), one=(T("1"),), metric=T("abs(s - o)")),
    "MaxPlus": dict(add=(T("max(s, o)"),), mul=(T("s + o"),), star="one", zero=(p_neg(p_atom("inf")),), one=(T("0"),), metric=T("abs(s - o)")),
    "MaxTimes": dict(add=(T("max(s, o)"),), mul=(T("s * o"),), star="one", zero=(T("0"),), one=(T("1"),), metric=T("abs(s - o)")),
    "Expectation": dict(add=(T("s0 + o0"), T("s1 + o1")), mul=(T("s0 * o0"), T("s0 * o1 + s1 * o0")),
                        star=(T("1 / (1 - s0)"), T("s1 * (1 / (1 - s0)) * (1 / (1 - s0))")), zero="<0,0>", one="<1,0>", metric=None),
    "Entropy": dict(add=(T("s0 + o0"), T("s1 + o1")), mul=(T("s0 * o0"), T("s0 * o1 + s1 * o0")),
                    star=(T("1 / (1 - s0)"), T("s1 * (1 / (1 - s0)) * (1 / (1 - s0))")), zero=(T("0"), T("0")), one=(T("1"), T("0")),
                    metric=T("max(abs(s0 - o0), abs(s1 - o1))")),
    "Log": dict(add="logaddexp", mul=(T("s + o"),), star=(p_neg(p_atom("log1p(-1*exp(s))")),), zero=(p_neg(p_atom("inf")),), one=(T("0"),), metric=T("abs(s - o)")),
}


def _same(a, b):
    return len(a) == len(b) and all(p_key(x) == p_key(y) for x, y in zip(a, b))


def rule_sr_table(P):
    r = RuleResult("SR-TABLE", "each shipped weight type is recognised, up to operand order / parenthesisation / local naming, as a canonical "
                   "closed semiring: (∨,∧) Boolean; (+,×) Real and Float; (max,+); (max,×); (logaddexp,+); first-order expectation pairs "
                   "(Entropy, Expectation); constants are the identities of the recognised operations; star is the canonical one; identity "
                   "short-cuts return what the law prescribes; metric is the absolute difference. For recognised definitions the laws "
                   "are the textbook facts about those semirings", "weight types are the textbook closed semirings")
    m = P.module("semiring.py")
    site = ModSite(m)
    for cname, spec in CANON.items():
        cls = P.cls("semiring.py", cname)
        for op in ("add", "mul"):
            f = cls.lookup(f"__{op}__")
            if not f or f[0] != "method" or f[2].name == "Semiring":
                r.add(site, cls.node, False, f"{cname} does not define __{op}__", construct=f"{cname}.__{op}__")
                continue
            f = f[1]
            r.looked_at(f)
            c, cases = summarise(P, f, cname)
            general = [k for k in cases if not any(_guard_identity(g, c, cname) for g in k.guards)]
            short = [k for k in cases if any(_guard_identity(g, c, cname) for g in k.guards)]
            # identity short-cuts
            for k in short:
                ids = [_guard_identity(g, c, cname) for g in k.guards if _guard_identity(g, c, cname)]
                who, const = ids[-1]
                if op == "add":
                    want = {("other", "zero"): "self", ("self", "zero"): "other"}.get((who, const))
                else:
                    want = {("other", "one"): "self", ("self", "one"): "other", ("other", "zero"): "zero", ("self", "zero"): "zero"}.get((who, const))
                ok = want is not None and k.kind == want
                r.add(f, k.node, ok, "" if ok else f"{cname}.__{op}__: when `{who}` is the {const} the law requires returning `{want}`, "
                      f"the code returns `{k.kind}`", slots=dict(guard=f"{who} is {const}", returns=k.kind, law=want))
            # general case(s)
            want = spec[op]
            if want == "logaddexp":
                # -inf - -inf is nan: unless numpy's logaddexp is used, both zero short-cuts are part of the definition
                # value-based (==) guards only: a product with zero is a freshly built Log(-inf), which `is` does not recognise
                ids = set()
                for k in short:
                    for g in k.guards:
                        gi = _guard_identity(g, c, cname)
                        if gi and " == " in g[0]:
                            ids.add(gi)
                uses_np = any(k.kind == "ctor" and k.value and "logaddexp" in p_str(k.value[0]) for k in general)
                if not uses_np:
                    okz = ("self", "zero") in ids and ("other", "zero") in ids
                    r.add(f, f.node, okz, "" if okz else f"{cname}.__add__ has no value-based `== zero` short-cut for both operands: zero + zero (also with a freshly built zero) evaluates "
                          f"-inf - -inf = nan, so the zero is no longer the additive identity at zero", construct=f"{cname}.__add__ zero short-cuts")
                ok = _check_logaddexp(c, general)
                for k in general:
                    r.add(f, k.node, ok, "" if ok else f"{cname}.__add__ is not log(exp(s) + exp(o)) (max + log1p(exp(min − max)))")
            else:
                if not general:
                    r.add(f, f.node, False, f"{cname}.__{op}__ has no general case", construct=f"{cname}.__{op}__ general case")
                for k in general:
                    ok = k.kind == "ctor" and _same(k.value, want)
                    r.add(f, k.node, ok, "" if ok else f"{cname}.__{op}__ computes ({', '.join(p_str(x) for x in (k.value or ()))}) — "
                          f"expected ({', '.join(p_str(x) for x in want)})", slots=dict(op=op, got=[p_str(x) for x in (k.value or ())]))
        # star
        f = cls.lookup("star")
        if not f or f[0] != "method":
            r.add(site, cls.node, False, f"{cname} does not define star", construct=f"{cname}.star")
        else:
            f = f[1]
            r.looked_at(f)
            c, cases = summarise(P, f, cname)
            for k in cases:
                if spec["star"] == "one":
                    ok = k.kind == "one"
                    msg = f"{cname}.star must be the one (idempotent semiring, x ≤ one)"
                else:
                    ok = k.kind == "ctor" and _same(k.value, spec["star"])
                    msg = f"{cname}.star computes ({', '.join(p_str(x) for x in (k.value or ()))}) — expected ({', '.join(p_str(x) for x in spec['star'])})"
                r.add(f, k.node, ok, "" if ok else msg)
        # constants
        for const in ("zero", "one"):
            pat = cls.patches.get(const)
            if pat is None:
                r.add(site, cls.node, False, f"{cname}.{const} is not defined", construct=f"{cname}.{const}")
                continue
            val, st = pat
            want = spec[const]
            ok = False
            got = norm(val)
            if isinstance(want, str):
                ok = isinstance(val, ast.Call) and norm(val.func) == f"{cname}.from_string" and isinstance(val.args[0], ast.Constant) \
                    and val.args[0].value.replace(" ", "") == want
                if not ok and isinstance(val, ast.Call) and norm(val.func) == cname:
                    cc = Canon(None, ["self", "other"], cname)
                    nums = tuple(cc.poly(a) for a in val.args)
                    wn = tuple(p_const(Fraction(x)) for x in want.strip("<>").split(","))
                    ok = _same(nums, wn)
            else:
                if isinstance(val, ast.Call) and norm(val.func) == cname:
                    cc = Canon(None, ["self", "other"], cname)
                    ok = _same(tuple(cc.poly(a) for a in val.args), want)
            r.add(site, st, ok, "" if ok else f"{cname}.{const} = {got} is not the identity of the recognised "
                  f"{'addition' if const == 'zero' else 'multiplication'}", construct=f"{cname}.{const} = {got}")
        # metric
        if spec["metric"] is not None:
            f = cls.lookup("metric")
            if f and f[0] == "method" and f[2].name != "Semiring":
                f = f[1]
                r.looked_at(f)
                c, cases = summarise(P, f, cname, plain=True)
                for k in cases:
                    ok = k.kind == "poly" and p_key(k.value) == p_key(spec["metric"])
                    r.add(f, k.node, ok, "" if ok else f"{cname}.metric is `{norm(k.node.value)}`, not the absolute difference of the scores: "
                          f"convergence tests compare values on a different scale", slots=dict(got=p_str(k.value) if k.kind == "poly" else k.kind))
            else:
                r.add(site, cls.node, False, f"{cname} inherits the exact-equality metric", construct=f"{cname}.metric")
    # Boolean
    _check_boolean(P, r, site)
    # Float
    fl = P.cls("semiring.py", "Float")
    z, o = fl.attrs.get("zero"), fl.attrs.get("one")
    ok = isinstance(z, ast.Constant) and z.value == 0 and isinstance(o, ast.Constant) and o.value == 1 and not isinstance(z.value, bool)
    r.add(site, fl.node, ok, "" if ok else "Float.zero / Float.one are not 0 / 1", construct="Float.zero = 0; Float.one = 1")
    st = fl.methods.get("star")
    if st is None:
        raise AnalysisError("semiring.py::Float.star not found")
    c, cases = summarise(P, st, "Float", plain=True)
    for k in cases:
        ok = k.kind == "poly" and p_key(k.value) == p_key(parse_template("1 / (1 - s)"))
        r.add(st, k.node, ok, "" if ok else "Float.star is not 1/(1-x)")
    mt = fl.methods.get("metric")
    c, cases = summarise(P, mt, "Float", plain=True)
    for k in cases:
        ok = k.kind == "poly" and p_key(k.value) == p_key(parse_template("abs(s - o)"))
        r.add(mt, k.node, ok, "" if ok else "Float.metric is not |x - y|")
    # completeness: every exported weight type is in the table
    init = P.module("__init__.py")
    exported = set()
    for n in ast.walk(init.tree):
        if isinstance(n, ast.ImportFrom) and n.module and n.module.endswith("semiring"):
            exported.update(a.name for a in n.names)
    known = set(CANON) | {"Boolean", "Float"}
    for name in sorted(exported):
        ok = name in known
        r.add(ModSite(init), init.tree, ok, "" if ok else f"exported weight type {name} is not in the recognition table", construct=f"export {name}")
    r.min_instances = 45
    return r


def _check_logaddexp(c, general):
    """two branches under s > o: Log(s + log1p(exp(o - s))) / Log(o + log1p(exp(s - o)))  (or np.logaddexp)"""
    if not general:
        return False
    for k in general:
        if k.kind != "ctor" or len(k.value) != 1:
            return False
        got = p_key(k.value[0])
        a = p_key(p_add(p_atom("s"), p_atom("log1p(exp(-1*s + o))")))
        a2 = p_key(p_add(p_atom("s"), p_atom("log1p(exp(o + -1*s))")))
        b = p_key(p_add(p_atom("o"), p_atom("log1p(exp(-1*o + s))")))
        b2 = p_key(p_add(p_atom("o"), p_atom("log1p(exp(s + -1*o))")))
        lae = p_key(p_atom("logaddexp(o, s)"))
        pos = any(pol and t in ("s > o",) for t, pol in k.guards)
        neg = any(pol and t in ("o >= s", "o > s") for t, pol in k.guards)
        if got == lae:
            continue
        if pos and got in (a, a2):
            continue
        if neg and got in (b, b2):
            continue
        return False
    return True


def _check_boolean(P, r, site):
    cls = P.cls("semiring.py", "Boolean")
    for op, bop, name in (("add", ast.Or, "or"), ("mul", ast.And, "and")):
        f = cls.methods.get(f"__{op}__")
        if f is None:
            r.add(site, cls.node, False, f"Boolean does not define __{op}__", construct=f"Boolean.__{op}__")
            continue
        r.looked_at(f)
        rets = [n for n in walk_live(f.node) if isinstance(n, ast.Return)]
        ok = False
        # form 1: if <s op o>: return one else: return zero
        ifs = [n for n in f.node.body if isinstance(n, ast.If)]
        if len(ifs) == 1 and isinstance(ifs[0].test, ast.BoolOp) and isinstance(ifs[0].test.op, bop):
            ops = sorted(norm(v) for v in ifs[0].test.values)
            rb = ifs[0].body[0] if ifs[0].body else None
            ro = (ifs[0].orelse or f.node.body[f.node.body.index(ifs[0]) + 1:])[0] if (ifs[0].orelse or len(f.node.body) > f.node.body.index(ifs[0]) + 1) else None
            ok = ops == ["other.score", "self.score"] and isinstance(rb, ast.Return) and norm(rb.value).endswith(".one") \
                and isinstance(ro, ast.Return) and norm(ro.value).endswith(".zero")
        # form 2: return Boolean(s op o)
        if not ok and len(rets) == 1 and isinstance(rets[0].value, ast.Call) and norm(rets[0].value.func) == "Boolean":
            a = rets[0].value.args[0]
            ok = isinstance(a, ast.BoolOp) and isinstance(a.op, bop) and sorted(norm(v) for v in a.values) == ["other.score", "self.score"]
        r.add(f, f.node, ok, "" if ok else f"Boolean.__{op}__ is not `self.score {name} other.score`", construct=f"Boolean.__{op}__")
    st = cls.methods.get("star")
    rets = [n for n in walk_live(st.node) if isinstance(n, ast.Return)] if st else []
    ok = len(rets) == 1 and norm(rets[0].value).endswith(".one")
    r.add(st or site, rets[0] if rets else cls.node, ok, "" if ok else "Boolean.star must be one")
    for const, want in (("zero", False), ("one", True)):
        pat = cls.patches.get(const)
        ok = pat is not None and isinstance(pat[0], ast.Call) and norm(pat[0].func) == "Boolean" and isinstance(pat[0].args[0], ast.Constant) \
            and pat[0].args[0].value is want
        r.add(site, pat[1] if pat else cls.node, ok, "" if ok else f"Boolean.{const} is not Boolean({want})", construct=f"Boolean.{const}")
    init = cls.methods.get("__init__")
    ok = init is not None and any(isinstance(n, ast.Call) and norm(n.func) == "bool" for n in ast.walk(init.node))
    r.add(init or site, init.node if init else cls.node, ok, "" if ok else "Boolean.__init__ does not coerce its score to bool")
