"""Extraction of literal machines from builder functions + decision procedures on the extracted tables:
TAB-PREFIX, TAB-EPSFILTER (with TAB-AUGMENT), TAB-ASSOC, TAB-SPECIAL, SEED-STATES, LABEL-PAIR."""

from __future__ import annotations

import ast
import re
import itertools

from ..model import AnalysisError, norm, walk_live, parent, ancestors, first_line
from ..report import RuleResult
from .. import walk as W

EPS_NAMES = {"EPSILON": "ε", "ε": "ε", "ε_1": "ε1", "ε_2": "ε2"}


class Machine:
    def __init__(self):
        self.I = []
        self.F = []
        self.arcs = []  # (src, (l1, l2), dst, call)
        self.bad_weights = []
        self.states = set()


def extract_machine(P, f):
    """Abstractly interpret a builder `M = FST(R); M.add_I/F/arc(...); for x in <alphabet param>; for q in (consts); return M`."""
    params = f.params
    mvar = None
    env = {}
    M = Machine()

    def const(e, env):
        if isinstance(e, ast.Constant):
            return e.value
        if isinstance(e, ast.Name) and e.id in env:
            return env[e.id]
        if isinstance(e, ast.Tuple):
            return tuple(const(x, env) for x in e.elts)
        raise AnalysisError(f"{f.qual}: state `{norm(e)}` is not a literal constant")

    def label(e, env):
        if isinstance(e, ast.Name):
            if e.id in env and isinstance(env[e.id], str) and env[e.id].startswith("σ"):
                return env[e.id]
            if e.id in EPS_NAMES:
                return EPS_NAMES[e.id]
        raise AnalysisError(f"{f.qual}: arc label component `{norm(e)}` not understood")

    def is_one(e):
        return isinstance(e, ast.Attribute) and e.attr == "one" and isinstance(e.value, ast.Name) and e.value.id in params

    def run(stmts, env):
        nonlocal mvar
        for s in stmts:
            if isinstance(s, ast.Expr) and isinstance(s.value, ast.Constant):
                continue
            if isinstance(s, ast.Assign) and isinstance(s.value, ast.Call) and W.call_name(s.value) in ("FST", "WFSA") \
                    and isinstance(s.targets[0], ast.Name):
                mvar = s.targets[0].id
                continue
            if isinstance(s, ast.Expr) and isinstance(s.value, ast.Call) and isinstance(s.value.func, ast.Attribute) \
                    and W.is_name(s.value.func.value, mvar):
                c = s.value
                nm = c.func.attr
                if nm in ("add_I", "add_F") and len(c.args) == 2:
                    q = const(c.args[0], env)
                    (M.I if nm == "add_I" else M.F).append(q)
                    M.states.add(q)
                    if not is_one(c.args[1]):
                        M.bad_weights.append(c)
                    continue
                if nm == "add_arc" and len(c.args) == 4 and isinstance(c.args[1], ast.Tuple) and len(c.args[1].elts) == 2:
                    a, b = (label(x, env) for x in c.args[1].elts)
                    src, dst = const(c.args[0], env), const(c.args[2], env)
                    M.arcs.append((src, (a, b), dst, c))
                    M.states.update([src, dst])
                    if not is_one(c.args[3]):
                        M.bad_weights.append(c)
                    continue
                raise AnalysisError(f"{f.qual}: builder statement `{first_line(s)}` not understood")
            if isinstance(s, ast.For) and isinstance(s.target, ast.Name) and not s.orelse:
                it = s.iter
                if isinstance(it, ast.Name) and it.id in params:
                    n = sum(1 for v in env.values() if isinstance(v, str) and v.startswith("σ"))
                    env2 = dict(env)
                    env2[s.target.id] = "σ" + ("'" * n)
                    run(s.body, env2)
                    continue
                if isinstance(it, (ast.Tuple, ast.List)) and all(isinstance(e, ast.Constant) for e in it.elts):
                    for e in it.elts:
                        env2 = dict(env)
                        env2[s.target.id] = e.value
                        run(s.body, env2)
                    continue
                if isinstance(it, ast.Call) and W.call_name(it) == "range" and all(isinstance(a, ast.Constant) for a in it.args):
                    for v in range(*[a.value for a in it.args]):
                        env2 = dict(env)
                        env2[s.target.id] = v
                        run(s.body, env2)
                    continue
                raise AnalysisError(f"{f.qual}: loop `for {norm(s.target)} in {norm(it)}` not understood")
            if isinstance(s, ast.Return):
                if not W.is_name(s.value, mvar):
                    raise AnalysisError(f"{f.qual}: returns `{norm(s.value)}`, not the machine built")
                continue
            raise AnalysisError(f"{f.qual}: builder statement `{first_line(s)}` not understood")

    run(f.node.body, env)
    if mvar is None:
        raise AnalysisError(f"{f.qual}: no machine constructed")
    return M


def count_paths(M, word, sym_of):
    """number of accepting paths whose arc-symbol sequence is `word` (sym_of maps an arc label pair to a symbol or None)"""
    cur = {}
    for q in M.I:
        cur[q] = cur.get(q, 0) + 1
    for x in word:
        nxt = {}
        for (s, lab, d, _) in M.arcs:
            if sym_of(lab) == x and s in cur:
                nxt[d] = nxt.get(d, 0) + cur[s]
        cur = nxt
    fin = {}
    for q in M.F:
        fin[q] = fin.get(q, 0) + 1
    return sum(v * fin.get(q, 0) for q, v in cur.items())


# ---------------------------------------------------------------- TAB-PREFIX


def rule_tab_prefix(P, bound=None):
    r = RuleResult("TAB-PREFIX", "the prefix transducer is extracted from its builder and decided on the table: with c=(x,x) copy and "
                   "d=(x,ε) delete, the number of accepting paths is 1 on every word of c*d* and 0 on every other arc-label word "
                   "(complete bound n1+n2-1 for ℕ-weighted automata), all weights R.one, no other label kinds",
                   "each (string, prefix) pair has exactly one accepting path")
    f = P.func("cfg.py::prefix_transducer")
    r.looked_at(f)
    M = extract_machine(P, f)

    def sym(lab):
        a, b = lab
        if a == "σ" and b == "σ":
            return "c"
        if a == "σ" and b == "ε":
            return "d"
        return f"{a}:{b}"

    alphabet = sorted({sym(l) for _, l, _, _ in M.arcs} | {"c", "d"})
    L = bound or (len(M.states) + 2 - 1)
    bad = None
    n_words = 0
    for n in range(0, L + 1):
        for w in itertools.product(alphabet, repeat=n):
            n_words += 1
            word = "".join(x if len(x) == 1 else "?" for x in w)
            in_lang = all(len(x) == 1 for x in w) and ("dc" not in word)
            want = 1 if in_lang else 0
            got = count_paths(M, w, sym)
            if got != want and bad is None:
                bad = (w, got, want)
    ok = bad is None and not M.bad_weights
    msg = ""
    if bad is not None:
        w, got, want = bad
        msg = (f"arc-label word {' '.join(w) or 'ε'} has {got} accepting path(s), expected {want}: "
               + ("a (string, prefix) pair is counted more than once / a non-prefix output is produced" if got > want else
                  "a (string, prefix) pair is lost"))
    elif M.bad_weights:
        msg = f"`{first_line(M.bad_weights[0])}` has a weight other than R.one"
    r.add(f, f.node, ok, msg, slots=dict(states=sorted(map(str, M.states)), initial=M.I, final=M.F,
                                         arcs=[f"{s} -{a}:{b}-> {d}" for s, (a, b), d, _ in M.arcs], words_checked=n_words, bound=L),
          construct="prefix_transducer: extracted table vs. 'one path per word of c*d*'")
    # the prefix grammar is the composition with this transducer over the grammar's own R and V
    g = P.func("cfg.py::CFG.prefix_grammar")
    r.looked_at(g)
    rets = [n for n in walk_live(g.node) if isinstance(n, ast.Return)]
    ok = len(rets) == 1 and norm(rets[0].value) == "self @ prefix_transducer(self.R, self.V)"
    r.add(g, rets[0] if rets else g.node, ok, "" if ok else f"prefix_grammar is `{norm(rets[0].value) if rets else ''}`, not self @ prefix_transducer(self.R, self.V)")
    pw = P.func("cfg.py::CFG.prefix_weight")
    r.looked_at(pw)
    rets = [n for n in walk_live(pw.node) if isinstance(n, ast.Return)]
    ok = len(rets) == 1 and norm(rets[0].value) == f"self.prefix_grammar({pw.params[1]})"
    r.add(pw, rets[0] if rets else pw.node, ok, "" if ok else "prefix_weight(xs) is not prefix_grammar(xs) on every path "
          "(a shortcut for some prefixes bypasses the grammar)")
    r.min_instances = 3
    return r


# ---------------------------------------------------------------- TAB-AUGMENT


def _augment_tables(P):
    """Specialise FST._augment_epsilon_transitions on idx ∈ {0, 1}: (self-loop label, relabelling map) per idx."""
    f = P.func("fst.py::FST._augment_epsilon_transitions")
    idxp = f.params[1]
    out = {}
    for idx in (0, 1):
        loops = []
        relabel = {}

        def truth(test, env):
            """evaluate a test under idx and an abstract label (a, b) ∈ {σ, ε}²"""
            if isinstance(test, ast.BoolOp):
                vals = [truth(v, env) for v in test.values]
                return all(vals) if isinstance(test.op, ast.And) else any(vals)
            if isinstance(test, ast.UnaryOp) and isinstance(test.op, ast.Not):
                return not truth(test.operand, env)
            if isinstance(test, ast.Compare) and len(test.ops) == 1 and isinstance(test.ops[0], (ast.Eq, ast.NotEq)):
                a, b = value(test.left, env), value(test.comparators[0], env)
                return (a == b) if isinstance(test.ops[0], ast.Eq) else (a != b)
            if isinstance(test, ast.Compare) and len(test.ops) == 1 and isinstance(test.ops[0], ast.In):
                a = value(test.left, env)
                b = test.comparators[0]
                if isinstance(b, (ast.List, ast.Tuple, ast.Set)):
                    return a in [value(x, env) for x in b.elts]
            # truthiness of a label component (reported separately by GEN-TRUTH): ε is '' hence falsy
            if isinstance(test, (ast.Compare, ast.BoolOp)):
                raise AnalysisError(f"{f.qual}: test `{norm(test)}` not understood")
            v = value(test, env)
            if isinstance(v, bool):
                return v
            if v in ("σ",):
                return True
            if v == "ε":
                return False
            raise AnalysisError(f"{f.qual}: test `{norm(test)}` not understood")

        def value(e, env):
            if isinstance(e, ast.Constant):
                return e.value
            if isinstance(e, ast.Name):
                if e.id == idxp:
                    return idx
                if e.id in EPS_NAMES:
                    return EPS_NAMES[e.id]
                if e.id in env:
                    return env[e.id]
            if isinstance(e, ast.Subscript) and isinstance(e.value, ast.Name) and e.value.id in env and isinstance(e.slice, ast.Constant):
                return env[e.value.id][e.slice.value]
            if isinstance(e, ast.Tuple):
                return tuple(value(x, env) for x in e.elts)
            if isinstance(e, ast.IfExp):
                return value(e.body, env) if truth(e.test, env) else value(e.orelse, env)
            if isinstance(e, (ast.Compare, ast.BoolOp)) or (isinstance(e, ast.UnaryOp) and isinstance(e.op, ast.Not)):
                return truth(e, env)
            if isinstance(e, ast.Attribute) and norm(e).endswith(".one"):
                return "one"
            raise AnalysisError(f"{f.qual}: expression `{norm(e)}` not understood")

        def run(stmts, env, in_arcs):
            for s in stmts:
                if isinstance(s, ast.Expr) and isinstance(s.value, ast.Constant):
                    continue
                if isinstance(s, ast.Assert):
                    continue
                if isinstance(s, ast.If):
                    run(s.body if truth(s.test, env) else s.orelse, env, in_arcs)
                    continue
                if isinstance(s, ast.Assign) and isinstance(s.value, ast.Call) and W.call_name(s.value) == "spawn":
                    kws = {k.arg: norm(k.value) for k in s.value.keywords}
                    env["__spawn__"] = kws
                    env["__T__"] = s.targets[0].id
                    continue
                if isinstance(s, ast.Assign) and len(s.targets) == 1 and isinstance(s.targets[0], ast.Name):
                    env[s.targets[0].id] = value(s.value, env)
                    continue
                if isinstance(s, ast.Assign) and len(s.targets) == 1 and isinstance(s.targets[0], ast.Tuple) and isinstance(s.value, ast.Tuple) \
                        and len(s.targets[0].elts) == len(s.value.elts):
                    vals = [value(x, env) for x in s.value.elts]
                    for t, v in zip(s.targets[0].elts, vals):
                        env[t.id] = v
                    continue
                if isinstance(s, ast.For):
                    it = s.iter
                    if norm(it) == "self.states":
                        env2 = dict(env)
                        env2[s.target.id] = "q"
                        run(s.body, env2, False)
                        continue
                    if isinstance(it, ast.Call) and W.call_name(it) == "arcs" and W.is_name(W.receiver(it), "self"):
                        tg = s.target
                        for a0 in ("σ", "ε"):
                            for b0 in ("σ", "ε"):
                                env2 = dict(env)
                                env2["__orig__"] = (a0, b0)
                                if isinstance(tg, ast.Tuple) and len(tg.elts) == 3:
                                    lab, j, w = tg.elts
                                    if isinstance(lab, ast.Name):
                                        env2[lab.id] = (a0, b0)
                                    elif isinstance(lab, ast.Tuple) and len(lab.elts) == 2:
                                        env2[lab.elts[0].id], env2[lab.elts[1].id] = a0, b0
                                    env2[j.id] = "q2"
                                    env2[w.id] = "w"
                                else:
                                    raise AnalysisError(f"{f.qual}: arc loop target `{norm(tg)}` not understood")
                                run(s.body, env2, True)
                        continue
                    raise AnalysisError(f"{f.qual}: loop over `{norm(it)}` not understood")
                if isinstance(s, ast.Expr) and isinstance(s.value, ast.Call) and W.call_name(s.value) == "add_arc":
                    c = s.value
                    lab = value(c.args[1], env)
                    if in_arcs:
                        relabel.setdefault(env["__orig__"], []).append((lab, norm(c.args[3])))
                    else:
                        loops.append((lab, norm(c.args[0]) == norm(c.args[2]), norm(c.args[3])))
                    continue
                if isinstance(s, ast.Return):
                    continue
                raise AnalysisError(f"{f.qual}: statement `{first_line(s)}` not understood")

        env = {}
        run(f.node.body, env, False)
        out[idx] = dict(loops=loops, relabel=relabel, spawn=env.get("__spawn__", {}))
    return f, out


def rule_tab_epsfilter(P, N=4, blocks=2):
    r = RuleResult("TAB-EPSFILTER", "the ε-filter and the relabelling protocol are extracted (filter builder; _augment_epsilon_transitions "
                   "specialised on idx=0/1) and decided together: operand 1 signals 'I stay'/'I move (output ε)' on the filter's input "
                   "side, operand 2 on its output side; the filter must have no stay/stay arc, be all-final, and accept exactly ONE "
                   "interleaving word for every block of i left-ε-moves and j right-ε-moves between matches",
                   "every pair of matching paths contributes exactly once when both machines have ε moves")
    f = P.func("fst.py::epsilon_filter_fst")
    r.looked_at(f)
    fa, aug = _augment_tables(P)
    r.looked_at(fa)
    # ---- TAB-AUGMENT part
    a0, a1 = aug[0], aug[1]
    problems = []
    if len(a0["loops"]) != 1 or len(a1["loops"]) != 1:
        problems.append("each specialisation must add exactly one self-loop per state")
    stay0 = move0 = stay1 = move1 = None
    if not problems:
        (l0, self0, w0), (l1, self1, w1) = a0["loops"][0], a1["loops"][0]
        if not (self0 and self1):
            problems.append("the 'stay' arcs are not self-loops")
        if not (w0.endswith(".one") and w1.endswith(".one")):
            problems.append("self-loops must have weight R.one")
        if l0[0] != "ε" or l1[1] != "ε":
            problems.append(f"self-loop labels {l0}/{l1}: operand 1 must stay with input ε, operand 2 with output ε")
        stay0, stay1 = l0[1], l1[0]
        for (orig, outs) in a0["relabel"].items():
            if len(outs) != 1 or outs[0][1] != "w":
                problems.append("idx=0: every arc must be copied exactly once with its weight")
                continue
            new = outs[0][0]
            if orig[1] == "ε":
                move0 = new[1] if move0 in (None, new[1]) else "?"
                if new[0] != orig[0]:
                    problems.append("idx=0: input label changed")
            elif new != orig:
                problems.append(f"idx=0: label {orig} rewritten to {new}")
        for (orig, outs) in a1["relabel"].items():
            if len(outs) != 1 or outs[0][1] != "w":
                problems.append("idx=1: every arc must be copied exactly once with its weight")
                continue
            new = outs[0][0]
            if orig[0] == "ε":
                move1 = new[0] if move1 in (None, new[0]) else "?"
                if new[1] != orig[1]:
                    problems.append("idx=1: output label changed")
            elif new != orig:
                problems.append(f"idx=1: label {orig} rewritten to {new}")
        specials = {stay0, move0, stay1, move1}
        if None in specials or "?" in specials or "ε" in specials or "σ" in specials:
            problems.append(f"special labels not recognised: stay0={stay0} move0={move0} stay1={stay1} move1={move1}")
        elif stay0 == move0 or stay1 == move1:
            problems.append("'stay' and 'move' use the same special label")
        for k, a in ((0, a0), (1, a1)):
            sp = a["spawn"]
            if sp.get("keep_init") != "True" or sp.get("keep_stop") != "True" or sp.get("keep_arcs", "False") != "False":
                problems.append(f"idx={k}: the augmented machine must keep initial and final weights and rebuild the arcs")
    ok_aug = not problems
    r.add(fa, fa.node, ok_aug, "; ".join(problems), slots=dict(stay0=stay0, move0=move0, stay1=stay1, move1=move1),
          construct="_augment_epsilon_transitions specialised on idx ∈ {0,1} (TAB-AUGMENT)")
    if not ok_aug:
        r.min_instances = 2
        return r
    # ---- filter
    M = extract_machine(P, f)

    def sym(lab):
        a, b = lab
        if a == "σ" and b == "σ":
            return "m"
        left = {stay0: "stay", move0: "move"}.get(a)
        right = {stay1: "stay", move1: "move"}.get(b)
        if left is None or right is None:
            return f"{a}:{b}"
        return {("move", "move"): "b", ("stay", "move"): "r", ("move", "stay"): "l", ("stay", "stay"): "0"}[(left, right)]

    probs = []
    syms = {sym(l) for _, l, _, _ in M.arcs}
    if "0" in syms:
        probs.append("a stay/stay arc adds a weight-one ε cycle (every pair is counted infinitely often)")
    odd = [s for s in syms if len(s) > 1 and s not in ("ε:ε",)]
    if odd:
        probs.append(f"filter arcs with labels outside the protocol: {odd}")
    if set(M.F) != M.states:
        probs.append(f"states {sorted(map(str, M.states - set(M.F)))} are not final: paths ending inside an ε block are lost")
    if len(M.I) != 1:
        probs.append("the filter must have one initial state")
    if M.bad_weights:
        probs.append(f"`{first_line(M.bad_weights[0])}` has a weight other than R.one")
    bad = None
    n_checked = 0
    if not probs:
        # count accepted interleavings of blocks (i_k, j_k) separated by matches
        def block_words(i, j):
            # all words over {b, r, l} with #b+#l = i and #b+#r = j
            res = []
            for nb in range(0, min(i, j) + 1):
                nl, nr = i - nb, j - nb
                seen = set()
                for perm in set(itertools.permutations("b" * nb + "l" * nl + "r" * nr)):
                    res.append(perm)
            return res

        cache = {}
        for spec in itertools.product([(i, j) for i in range(N + 1) for j in range(N + 1)], repeat=blocks):
            if blocks > 1 and N > 2 and sum(i + j for i, j in spec) > 2 * N:
                continue
            total = 0
            parts = []
            for (i, j) in spec:
                if (i, j) not in cache:
                    cache[(i, j)] = block_words(i, j)
                parts.append(cache[(i, j)])
            for combo in itertools.product(*parts):
                word = []
                for k, w in enumerate(combo):
                    if k:
                        word.append("m")
                    word.extend(w)
                word.append("m")  # and a final match: the state after the block must still allow one
                total += count_paths(M, word, sym)
            n_checked += 1
            if total != 1 and bad is None:
                bad = (spec, total)
    ok = not probs and bad is None
    msg = "; ".join(probs)
    if bad is not None:
        spec, total = bad
        msg = (f"ε blocks {spec} (left-ε moves, right-ε moves) between matches: {total} accepted interleavings instead of exactly 1 — "
               + ("the same pair of paths is counted more than once" if total > 1 else "a pair of matching paths is lost"))
    r.add(f, f.node, ok, msg, slots=dict(states=sorted(map(str, M.states)), arcs=[f"{s} -{sym(l)}-> {d}" for s, l, d, _ in M.arcs],
                                         block_specs_checked=n_checked, max_eps_per_side=N, blocks=blocks),
          construct="epsilon_filter_fst: extracted table, one interleaving per ε block")
    r.min_instances = 2
    return r


# ---------------------------------------------------------------- TAB-ASSOC


def _def_of(fnode, name, at):
    d = W.single_def(fnode, name)
    if d is None and at is not None:
        rd = W.reaching_def(fnode, name, at)
        # the lexically last assignment before `at` that sits in the same statement list as an ancestor of `at` (same branch)
        if rd is not None and rd[1] is not None:
            lst = None
            par = parent(rd[0])
            for fld in ("body", "orelse"):
                b_ = getattr(par, fld, None)
                if isinstance(b_, list) and any(x is rd[0] for x in b_):
                    lst = b_
            x = at
            while x is not None and lst is not None:
                if any(y is x for y in lst):
                    return rd[1]
                x = parent(x)
    return d


def _compose_leaves(e, fnode=None, depth=0, at=None):
    """flatten X._compose(Y[, coarsen=..]) trees into the ordered leaf list and the coarsen flags of steps touching the filter;
    a local that names an intermediate machine (`left = self._augment_epsilon_transitions(0)`) stands for its single definition"""
    if fnode is not None and isinstance(e, ast.Name) and depth < 6:
        d = _def_of(fnode, e.id, at)
        if isinstance(d, ast.Call):
            e = d
    if isinstance(e, ast.Call) and isinstance(e.func, ast.Attribute) and e.func.attr == "_compose":
        lhs, rhs = e.func.value, e.args[0]
        if fnode is not None:
            for side in ("lhs", "rhs"):
                x = lhs if side == "lhs" else rhs
                if isinstance(x, ast.Name):
                    d = _def_of(fnode, x.id, at)
                    if isinstance(d, ast.Call):
                        if side == "lhs":
                            lhs = d
                        else:
                            rhs = d
        left = _compose_leaves(lhs, fnode, depth + 1, at)
        right = _compose_leaves(rhs, fnode, depth + 1, at)
        co = next((k.value for k in e.keywords if k.arg == "coarsen"), None)
        step = (e, co, lhs, rhs)
        return left[0] + right[0], left[1] + right[1] + [step]
    return [e], []


def rule_tab_assoc(P):
    r = RuleResult("TAB-ASSOC", "both association orders of FST.__matmul__ build L∘F∘R with L = self augmented as operand 0, F = the "
                   "ε-filter over self.R and self.B, R = other augmented as operand 1; the step that composes with the bare filter is "
                   "not pruned (coarsen=False)", "either association order builds the same composition")
    f = P.func("fst.py::FST.__matmul__")
    r.looked_at(f)
    o = f.params[1]
    rets = [n for n in walk_live(f.node) if isinstance(n, ast.Return) and any(isinstance(x, ast.Call) and W.call_name(x) == "_compose" for x in ast.walk(n.value))]
    if len(rets) < 1:
        raise AnalysisError("fst.py::FST.__matmul__: composition returns not found")
    for ret in rets:
        leaves, steps = _compose_leaves(ret.value, f.node, 0, ret)
        txt = [norm(x) for x in leaves]
        want = ["self._augment_epsilon_transitions(0)", "epsilon_filter_fst(self.R, self.B)", f"{o}._augment_epsilon_transitions(1)"]
        ok = txt == want
        # the step whose operands include the bare filter call must pass coarsen=False
        for (call, co, lhs, rhs) in steps:
            if any(isinstance(x, ast.Call) and W.call_name(x) == "epsilon_filter_fst" and x in (lhs, rhs) for x in (lhs, rhs)):
                if not (isinstance(co, ast.Constant) and co.value is False):
                    ok = False
        r.add(f, ret, ok, "" if ok else f"composition leaves are {txt}; expected {want} with coarsen=False on the filter step", slots=dict(leaves=txt))
    r.min_instances = 2
    return r


# ---------------------------------------------------------------- TAB-SPECIAL / SEED-STATES


def rule_tab_special(P):
    r = RuleResult("TAB-SPECIAL", "the special-rule table of the grammar∘transducer composition is written twice (item-set pass and "
                   "expansion pass): the two list expressions are identical, range over self.V, every rule has weight R.one; nullary "
                   "rules are seeded / expanded at every state of the machine in both passes",
                   "pass 1 (which items exist) and pass 2 (their expansion) agree")
    f1 = P.func("cfg.py::CFG._compose_bottom_up_epsilon")
    f2 = P.func("cfg.py::CFG.__matmul__")
    r.looked_at(f1, f2)
    defs = []
    names = []
    for f in (f1, f2):
        d = [(n.targets[0].id, n.value) for n in walk_live(f.node) if isinstance(n, ast.Assign) and isinstance(n.targets[0], ast.Name)
             and any(isinstance(x, ast.Call) and W.call_name(x) == "Rule" for x in ast.walk(n.value))
             and any(isinstance(x, ast.Call) and W.call_name(x) == "Other" for x in ast.walk(n.value))]
        if len(d) != 1:
            raise AnalysisError(f"{f.qual}: expected one definition of the special-rule table")
        names.append(d[0][0])
        defs.append(d[0][1])
    same = norm(defs[0]) == norm(defs[1])
    r.add(f2, defs[1], same, "" if same else f"the two copies of the special-rule table differ:\n   pass 1: {norm(defs[0])}\n   pass 2: {norm(defs[1])}",
          construct="special_rules (pass 1) == special_rules (pass 2)")
    for f, d in zip((f1, f2), defs):
        rules = [n for n in ast.walk(d) if isinstance(n, ast.Call) and W.call_name(n) == "Rule"]
        comps = [n for n in ast.walk(d) if isinstance(n, ast.ListComp)]
        ok = len(rules) == 3 and all(norm(c.args[0]) == "self.R.one" for c in rules) and len(comps) == 1 and norm(comps[0].generators[0].iter) == "self.V" \
            and not comps[0].generators[0].ifs
        shapes = sorted(norm(c.args[1]) + " → " + norm(c.args[2]) for c in rules)
        a = comps[0].generators[0].target.id if comps and isinstance(comps[0].generators[0].target, ast.Name) else "a"
        want = sorted([f"{a} → (EPSILON, {a})", "Other(self.S) → (self.S,)", "Other(self.S) → (Other(self.S), EPSILON)"])
        ok = ok and shapes == want
        r.add(f, d, ok, "" if ok else f"special rules are {shapes}; expected {want}, weight self.R.one, for every terminal of self.V", slots=dict(rules=shapes))
    # both passes consume chain(self, special_rules)
    for f, sn in zip((f1, f2), names):
        loops = [n for n in walk_live(f.node) if isinstance(n, ast.For) and sn in [x.id for x in ast.walk(n.iter) if isinstance(x, ast.Name)]]
        ok = len(loops) == 1 and norm(loops[0].iter) in (f"itertools.chain(self, {sn})", f"chain(self, {sn})")
        r.add(f, loops[0] if loops else f.node, ok, "" if ok else f"{f.name} does not iterate chain(self, <special rules>)")
    # nullary seeds at every state
    for f in (f1, f2):
        found = []
        for n in walk_live(f.node):
            if isinstance(n, ast.For) and isinstance(n.target, ast.Name):
                if any(re.match(r"^(0 == len\(\w+\.body\)|not \w+\.body|len\(\w+\.body\) < 1)$", t) for t in W.cfacts(f.node, n)):
                    found.append(n)
        good = [n for n in found if norm(n.iter) == f"{f.params[1]}.states"]
        ok = len(good) == 1 and len(found) == 1
        site = (found[0] if found else f.node)
        if not found and any(g.outer is f for g in P.funcs.values()):
            r.undecided(f, f.node, f"{f.name}: the nullary-rule loop is not in the function body (moved into a helper?)",
                        construct=f"{f.name}: nullary rules at every machine state")
            continue
        r.add(f, site, ok, "" if ok else f"nullary rules are not placed at every state of the machine (`for s in {f.params[1]}.states` under "
              f"`len(r.body) == 0`): states without incident arcs (e.g. the single state of the acceptor of the empty string) lose "
              f"their null derivations", slots=dict(iterates=[norm(n.iter) for n in found]),
              construct=f"{f.name}: nullary rules at every machine state")
    # pass 2 emits EVERY expansion of every non-nullary rule (no filter on the composed rule itself)
    for n in walk_live(f2.node):
        if isinstance(n, ast.Call) and W.call_name(n) == "add" and len(n.args) >= 3 and any(isinstance(a, ast.Starred) for a in n.args) \
                and isinstance(W.canon_ast(f2.node, n.args[1], n), ast.Tuple) and len(W.canon_ast(f2.node, n.args[1], n).elts) == 3:
            lp = next((a for a in ancestors(n) if isinstance(a, ast.For) and "join" in norm(a.iter)), None)
            if lp is None:
                continue
            extra = [ft for ft in W.guard_facts(n) if ft.kind in ("if", "else", "early-exit", "early-exit-else") and W._within(ft.origin, lp)]
            ok = not extra
            r.add(f2, n, ok, "" if ok else f"`{first_line(n)}` is skipped under {[repr(x) for x in extra]}: composed rules such as the unit "
                  f"self-loop (I,X,K) → (I,X,K) carry weight (1/(1-w) in non-idempotent semirings) and must all be emitted")
    # pass 2 expands rule bodies from every state that begins an item of the pass-1 chart (or from every machine state)
    c_name = None
    for n in walk_live(f2.node):
        if isinstance(n, ast.Assign) and isinstance(n.value, ast.Call) and W.call_name(n.value) == f1.name and isinstance(n.targets[0], ast.Name):
            c_name = n.targets[0].id
    for lp in [n for n in walk_live(f2.node) if isinstance(n, ast.For) and isinstance(n.target, ast.Name)
               and any(isinstance(x, ast.For) and "join" in norm(x.iter) and n.target.id in {y.id for y in ast.walk(x.iter) if isinstance(y, ast.Name)} for x in n.body)]:
        it = lp.iter
        if isinstance(it, ast.Name):
            d = W.single_def(f2.node, it.id)
            it = d if d is not None else it
        txt = norm(it)
        m_ = f2.params[1]
        if isinstance(it, (ast.SetComp, ast.ListComp, ast.GeneratorExp)) and len(it.generators) == 1 and not it.generators[0].ifs \
                and c_name is not None and norm(it.generators[0].iter) == c_name and isinstance(it.generators[0].target, ast.Tuple) \
                and norm(it.elt) == norm(it.generators[0].target.elts[0]):
            r.add(f2, lp, True, slots=dict(left_endpoints=txt), construct=f"{f2.name}: left end-points of expanded bodies")
        elif txt in (f"{m_}.states", f"set({m_}.states)", f"list({m_}.states)", f"sorted({m_}.states)"):
            r.add(f2, lp, True, slots=dict(left_endpoints=txt), construct=f"{f2.name}: left end-points of expanded bodies")
        elif "arcs" in txt or ".start" in txt or ".I" in txt.replace(f"{m_}.I", ".I") and "states" not in txt:
            r.add(f2, lp, False, f"bodies are expanded only from `{txt}`: a state without outgoing arcs (the last state of a string acceptor) never "
                  f"begins an expansion, so a non-empty body that derives only the empty string (T → U V over nullable U, V) is lost there",
                  construct=f"{f2.name}: left end-points of expanded bodies")
        else:
            r.undecided(f2, lp, f"left end-points `{txt}` not recognised", construct=f"{f2.name}: left end-points of expanded bodies")
    r.min_instances = 8
    return r


# ---------------------------------------------------------------- LABEL-PAIR


def rule_label_pair(P):
    r = RuleResult("LABEL-PAIR", "every arc added to a transducer carries a 2-tuple label (input, output): all consumers (T, project, "
                   "_pruned_compose, _augment…, CFG.__matmul__) destructure (a, b); a bare EPSILON label is not an ε:ε arc",
                   "transducer arcs are labelled by pairs")
    n = 0
    for q in sorted(P.funcs):
        f = P.funcs[q]
        fst_vars = set()
        for nd in walk_live(f.node):
            if isinstance(nd, ast.Assign) and isinstance(nd.targets[0], ast.Name) and isinstance(nd.value, ast.Call):
                c = nd.value
                nm = W.call_name(c)
                if nm == "FST" or (nm == "cls" and f.cls is not None and f.cls.name == "FST") \
                        or (nm == "spawn" and W.is_name(W.receiver(c), "self") and f.cls is not None and f.cls.name == "FST"):
                    fst_vars.add(nd.targets[0].id)
        if not fst_vars:
            continue
        for nd in walk_live(f.node):
            if isinstance(nd, ast.Call) and isinstance(nd.func, ast.Attribute) and nd.func.attr in ("add_arc", "set_arc") \
                    and isinstance(nd.func.value, ast.Name) and nd.func.value.id in fst_vars and len(nd.args) >= 2:
                lab = nd.args[1]
                ok = isinstance(lab, ast.Tuple) and len(lab.elts) == 2
                if not ok and isinstance(lab, ast.Name):
                    # a label variable taken from the arcs of an FST (already a pair)
                    for a in ancestors(nd):
                        if isinstance(a, ast.For) and any(isinstance(t, ast.Name) and t.id == lab.id for t in ast.walk(a.target)) \
                                and isinstance(a.iter, ast.Call) and W.call_name(a.iter) == "arcs":
                            ok = True
                    defs = [v for st_, v in W.assignments_to(f.node, lab.id)]

                    def pairish(v):
                        if isinstance(v, ast.Tuple):
                            return len(v.elts) == 2
                        if isinstance(v, ast.IfExp):
                            return pairish(v.body) and pairish(v.orelse)
                        if isinstance(v, ast.Name):
                            return any(isinstance(a, ast.For) and any(isinstance(t, ast.Name) and t.id == v.id for t in ast.walk(a.target))
                                       and isinstance(a.iter, ast.Call) and W.call_name(a.iter) == "arcs" for a in ancestors(nd)) or v.id == lab.id
                        return False

                    if defs and all(v is not None and pairish(v) for v in defs):
                        ok = True
                if not ok and isinstance(lab, ast.Call) and isinstance(lab.func, (ast.Attribute, ast.Name)):
                    # a relabelling helper of the package: every return is a 2-tuple or hands back its (pair) parameter
                    hname = lab.func.attr if isinstance(lab.func, ast.Attribute) else lab.func.id
                    cands = [g for g in P.funcs.values() if g.name == hname and g.module.rel == f.module.rel]
                    if len(cands) == 1:
                        rets = [x for x in walk_live(cands[0].node) if isinstance(x, ast.Return)]
                        if rets and all(x.value is not None and ((isinstance(x.value, ast.Tuple) and len(x.value.elts) == 2)
                                                                 or (isinstance(x.value, ast.Name) and x.value.id in cands[0].params)) for x in rets):
                            ok = True
                        else:
                            r.undecided(f, nd, f"label `{norm(lab)}` comes from a helper whose results are not all visibly pairs", construct=f"label of {first_line(nd)}")
                            n += 1
                            continue
                n += 1
                r.looked_at(f)
                r.add(f, nd, ok, "" if ok else f"`{first_line(nd)}`: label `{norm(lab)}` is not an (input, output) pair; T/project/compose "
                      f"raise on it", slots=dict(label=norm(lab)),
                      witness="FST.from_pairs([('ab','xy')], Float)('ab','xy') → IndexError; .T → ValueError (DESIGN §5 D7)" if not ok else None)
    r.min_instances = 18
    return r
