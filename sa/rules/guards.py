"""Guard / postcondition rules: GUARD-SHAPE, GUARD-UCYCLE, GUARD-VALIDATOR, GUARD-CNFASSERT, GUARD-TRIMUSABLE, GUARD-DIV."""

from __future__ import annotations

import ast
import re
import itertools

from ..model import AnalysisError, norm, walk_live, parent, ancestors, first_line
from ..report import RuleResult
from .. import walk as W


def _adds(f, recv=None, names=("add",), into_nested=False):
    out = []
    for n in walk_live(f.node, into_nested=into_nested):
        if isinstance(n, ast.Call) and isinstance(n.func, ast.Attribute) and n.func.attr in names:
            if recv is None or W.is_name(n.func.value, recv):
                out.append(n)
    return out


def _result_var(f):
    """name of the (single) returned local that is a spawned grammar/machine"""
    names = set()
    for n in walk_live(f.node):
        if isinstance(n, ast.Return) and isinstance(n.value, ast.Name):
            names.add(n.value.id)
    return names


def _body_args(call):
    """(explicit body exprs, starred exprs) after (w, head)"""
    args = call.args[2:]
    ex = [a for a in args if not isinstance(a, ast.Starred)]
    st = [a.value for a in args if isinstance(a, ast.Starred)]
    return ex, st


def _neg_unary_fact(facts, body_norm, pred="is_nonterminal"):
    """a fact  not(len(B) == 1 and self.<pred>(B[0]))"""
    for ft in facts:
        t = ft.test
        if not ft.pol and isinstance(t, ast.BoolOp) and isinstance(t.op, ast.And):
            parts = [norm(v) for v in t.values]
            if f"len({body_norm}) == 1" in parts and f"self.{pred}({body_norm}[0])" in parts and len(parts) == 2:
                return True
    return False


def _pos_fact(facts, text):
    return any(ft.pol and norm(ft.test) == text for ft in facts)


# ---------------------------------------------------------------- GUARD-SHAPE


def rule_guard_shape(P, which=("binarize", "_push_null_weights", "unaryremove", "separate_terminals", "separate_start", "_trim", "epsremove")):
    r = RuleResult("GUARD-SHAPE", "in each normal-form builder every site that adds a rule/arc to the result is dominated by the "
                   "fact that implies the builder's postcondition (arity ≤ 2; no new nullary rule except at S; no unary "
                   "nonterminal rule; terminals only in A→a; start symbol never in a body; only rules over kept symbols; no ε arc)",
                   "structural postconditions hold for every input grammar")
    if "binarize" in which:
        f = P.func("cfg.py::CFG.binarize")
        r.looked_at(f)
        res = _result_var(f)
        sites = [c for c in _adds(f) if norm(c.func.value) in res]
        if not sites:
            raise AnalysisError("cfg.py::CFG.binarize: no add site on the result")
        for c in sites:
            ex, st = _body_args(c)
            facts = W.cguard_facts(f.node, c)
            ok = len(st) <= 1
            hi_total = len(ex)
            for s in st:
                lo, hi = W.len_bounds(facts, W.cnorm(f.node, s, c))
                if hi is None:
                    ok = False
                else:
                    hi_total += hi
            ok = ok and hi_total <= 2
            r.add(f, c, ok, "" if ok else f"`{first_line(c)}` can add a rule with more than two body symbols "
                  f"(facts: {[repr(x) for x in facts]})", slots=dict(max_body=hi_total if ok else None, builder="binarize"))
        # every popped rule is either added or folded: the else-branch pushes back _fold's output
    if "_push_null_weights" in which:
        f = P.func("cfg.py::CFG._push_null_weights")
        r.looked_at(f)
        res = _result_var(f)
        for c in [c for c in _adds(f) if norm(c.func.value) in res]:
            ex, st = _body_args(c)
            facts = W.cguard_facts(f.node, c)
            nonempty = bool(ex)
            for s in st:
                lo, hi = W.len_bounds(facts, W.cnorm(f.node, s, c))
                if lo >= 1:
                    nonempty = True
            at_start = len(c.args) >= 2 and norm(c.args[1]) == "self.S" and not ex and not st
            ok = nonempty or at_start
            r.add(f, c, ok, "" if ok else f"`{first_line(c)}` can emit a nullary rule at a nonterminal other than the start symbol",
                  slots=dict(builder="_push_null_weights", body_nonempty=nonempty, at_start=at_start))
        # nullary input rules are dropped
        loops = [n for n in f.node.body if isinstance(n, ast.For)]
    if "unaryremove" in which:
        f = P.func("cfg.py::CFG.unaryremove")
        r.looked_at(f)
        res = _result_var(f)
        for c in [c for c in _adds(f) if norm(c.func.value) in res]:
            ex, st = _body_args(c)
            facts = W.cguard_facts(f.node, c)
            ok = True
            why = ""
            for s in st:
                b = W.cnorm(f.node, s, c)
                lo, hi = W.len_bounds(facts, b)
                if lo == 1 and hi == 1 or (hi is None or (lo <= 1 <= hi)):
                    if not (hi == 0 or lo >= 2) and not _neg_unary_fact(facts, b):
                        ok = False
                        why = f"`*{b}` may be a single nonterminal"
            if len(ex) == 1 and not st:
                ok = False
                why = "explicit unary body"
            r.add(f, c, ok, "" if ok else f"`{first_line(c)}` can add a unary nonterminal rule ({why}): the copy is not dominated by "
                  f"`not (len(body) == 1 and self.is_nonterminal(body[0]))`", slots=dict(builder="unaryremove"))
    if "separate_terminals" in which:
        f = P.func("cfg.py::CFG.separate_terminals")
        r.looked_at(f)
        res = _result_var(f)
        sites = [c for c in _adds(f, into_nested=True) if norm(c.func.value) in res]
        for c in sites:
            ex, st = _body_args(c)
            facts = W.cguard_facts(f.node, c)
            ok = False
            shape = "?"
            lo = hi = None
            encl = W.enclosing_function(c)
            if encl is not f.node and isinstance(encl, ast.FunctionDef):
                # the preterminal factory: one body symbol = its parameter, head = _gen_nt()
                ok = len(ex) == 1 and not st and W.is_name(ex[0], encl.args.args[0].arg) \
                    and isinstance(c.args[1], ast.Call) and W.call_name(c.args[1]) == "_gen_nt"
                shape = "fresh preterminal → its terminal"
            elif len(st) == 1 and not ex:
                s = st[0]
                if isinstance(s, ast.Name):
                    # a body built one statement earlier: `lifted = [.. for y in r.body]; new.add(.., *lifted)`
                    v = W.single_def(f.node, s.id)
                    if isinstance(v, ast.Call) and W.call_name(v) in ("list", "tuple") and len(v.args) == 1:
                        v = v.args[0]
                    if isinstance(v, (ast.GeneratorExp, ast.ListComp)):
                        s = v
                b = norm(s)
                lo, hi = W.len_bounds(facts, b) if not isinstance(s, (ast.GeneratorExp, ast.ListComp)) else (None, None)
                if isinstance(s, (ast.GeneratorExp, ast.ListComp)):
                    g = s.generators[0]
                    y = g.target.id if isinstance(g.target, ast.Name) else None
                    e = W.canon_ast(f.node, s.elt, c) if len(s.generators) == 1 and not g.ifs and norm(g.iter).endswith(".body") else s.elt
                    ok = isinstance(e, ast.IfExp) and norm(e.test) == f"self.is_terminal({y})" and W.is_name(e.orelse, y) \
                        and isinstance(e.body, ast.Attribute) and e.body.attr == "head" and isinstance(e.body.value, ast.Call) \
                        and len(s.generators) == 1 and not g.ifs and norm(g.iter).endswith(".body")
                    shape = "every terminal replaced by a preterminal head"
                else:
                    ok = lo == 1 and hi == 1 and _pos_fact(facts, f"self.is_terminal({b}[0])")
                    shape = "A → a copied"
                    if hi is None and lo in (0, None):
                        lo = None  # nothing known about the body: built elsewhere
            if not ok and shape == "?":
                r.undecided(f, c, f"`{first_line(c)}`: shape of the emitted body not recognised", construct=f"separate_terminals: {first_line(c)}")
                continue
            if not ok and len(st) == 1 and not ex and not isinstance(s, (ast.GeneratorExp, ast.ListComp)) and lo is None:
                r.undecided(f, c, f"`{first_line(c)}`: the emitted body `*{norm(st[0])}` is built elsewhere", construct=f"separate_terminals: {first_line(c)}")
                continue
            r.add(f, c, ok, "" if ok else f"`{first_line(c)}` can leave a terminal inside a longer right-hand side / emit a "
                  f"non-preterminal terminal rule", slots=dict(builder="separate_terminals", shape=shape))
        if len(sites) < 3:
            raise AnalysisError("cfg.py::CFG.separate_terminals: expected 3 add sites")
    if "separate_start" in which:
        f = P.func("cfg.py::CFG.separate_start")
        r.looked_at(f)
        # new start symbol
        spawns = [n for n in walk_live(f.node) if isinstance(n, ast.Call) and W.call_name(n) == "spawn"]
        if len(spawns) != 1:
            raise AnalysisError("cfg.py::CFG.separate_start: expected one spawn")
        s_kw = next((k.value for k in spawns[0].keywords if k.arg == "S"), None)
        s_def = W.deref(f.node, s_kw) if s_kw is not None else None
        fresh = isinstance(s_def, ast.Call) and W.call_name(s_def) == "_gen_nt"
        r.add(f, spawns[0], fresh, "" if fresh else "the new start symbol is not a fresh name", slots=dict(new_start=norm(s_def) if s_def is not None else None))
        res = _result_var(f) - {"self"}
        for c in [c for c in _adds(f) if norm(c.func.value) in res]:
            ex, st = _body_args(c)
            uses_new = any(s_kw is not None and norm(x) == norm(s_kw) for x in ex)
            ok = not uses_new
            r.add(f, c, ok, "" if ok else "the new start symbol appears in a body", slots=dict(builder="separate_start"))
        # returning self is allowed only when S is on no right-hand side
        for ret in [n for n in walk_live(f.node) if isinstance(n, ast.Return) and W.is_name(n.value, "self")]:
            ok = False
            built_elsewhere = None
            for t in W.cfacts(f.node, ret):
                m_ = re.match(r"^self\.S not in (.+)$", t)
                if m_:
                    rhs_ = m_.group(1)
                    if ".body" in rhs_:
                        ok = True
                    elif rhs_.isidentifier():
                        # a set collected by a loop: every rule's whole body must go into it
                        ups = [c for c in walk_live(f.node) if isinstance(c, ast.Call) and isinstance(c.func, ast.Attribute) and c.func.attr in ("update", "add")
                               and W.is_name(c.func.value, rhs_)]
                        full = [c for c in ups if c.func.attr == "update" and c.args and norm(c.args[0]).endswith(".body")
                                and any(isinstance(a, ast.For) and norm(a.iter) in ("self", "self.rules") and not W.cfacts(f.node, c) for a in ancestors(c))]
                        if ups and len(full) == len(ups):
                            ok = True
                        else:
                            built_elsewhere = rhs_
            if not ok and built_elsewhere is not None:
                r.undecided(f, ret, f"`return self` is guarded by `self.S not in {built_elsewhere}`, a set built elsewhere", construct="separate_start: return self")
                continue
            r.add(f, ret, ok, "" if ok else "`return self` is not dominated by `self.S not in <bodies>`")
    if "_trim" in which:
        f = P.func("cfg.py::CFG._trim")
        r.looked_at(f)
        res = _result_var(f)
        sym = f.params[1]
        for c in [c for c in _adds(f) if norm(c.func.value) in res]:
            facts = W.cguard_facts(f.node, c)
            ex, st = _body_args(c)
            head = norm(c.args[1])
            okh = _pos_fact(facts, f"{head} in {sym}")
            okb = len(st) == 1 and not ex and (_pos_fact(facts, f"set({norm(st[0])}) <= {sym}")
                                                or _pos_fact(facts, f"all((b in {sym} for b in {norm(st[0])}))")
                                                or any(ft.pol and norm(ft.test).startswith("all(") and f" in {sym} " in norm(ft.test)
                                                       and norm(st[0]) in norm(ft.test) for ft in facts))
            copy = norm(c.args[0]).endswith(".w") and head.endswith(".head") and st and norm(st[0]).endswith(".body") \
                and len({norm(c.args[0]).rsplit(".", 1)[0], head.rsplit(".", 1)[0], norm(st[0]).rsplit(".", 1)[0]}) == 1
            ok = okh and okb and copy
            r.add(f, c, ok, "" if ok else f"`{first_line(c)}`: a kept rule must be an unmodified copy whose head and whole body lie "
                  f"in the kept symbol set", slots=dict(builder="_trim", head_in=okh, body_in=okb, verbatim_copy=bool(copy)))
    if "epsremove" in which:
        f = P.func("wfsa/base.py::WFSA.epsremove")
        r.looked_at(f)
        res = _result_var(f)
        sites = [c for c in _adds(f, names=("add_arc", "set_arc")) if norm(c.func.value) in res]
        if not sites:
            raise AnalysisError("wfsa/base.py::WFSA.epsremove: no add_arc site")
        for c in sites:
            facts = W.cguard_facts(f.node, c)
            lab = norm(c.args[1])
            ok = any((cmp := W.fact_cmp(ft)) and cmp[1] is ast.NotEq and {norm(cmp[0]), norm(cmp[2])} == {lab, "EPSILON"} for ft in facts)
            r.add(f, c, ok, "" if ok else f"`{first_line(c)}` can copy an ε-labelled arc into the ε-free machine",
                  slots=dict(builder="epsremove", label=lab))
        # the spawned machine must not keep the arcs
        sp = [n for n in walk_live(f.node) if isinstance(n, ast.Call) and W.call_name(n) == "spawn"]
        for s in sp:
            ka = next((k.value for k in s.keywords if k.arg == "keep_arcs"), None)
            ok = ka is None or (isinstance(ka, ast.Constant) and ka.value is False)
            r.add(f, s, ok, "" if ok else "epsremove keeps all original arcs (ε arcs included)")
    r.min_instances = sum({"binarize": 1, "_push_null_weights": 2, "unaryremove": 1, "separate_terminals": 3, "separate_start": 3,
                           "_trim": 1, "epsremove": 2}[w] for w in which)
    return r


# ---------------------------------------------------------------- GUARD-UCYCLE


def rule_guard_ucycle(P):
    r = RuleResult("GUARD-UCYCLE", "unarycycleremove: a symbol is declared acyclic only under `len(nodes) == 1` and a zero self-loop "
                   "weight of the unary graph; every verbatim copy of an input rule is dominated by `not (unary ∧ same SCC)` or by "
                   "`head in acyclic`; cyclic heads are renamed with bot()", "no unary cycle survives")
    f = P.func("cfg.py::CFG.unarycycleremove")
    r.looked_at(f)
    gname = None
    for n in walk_live(f.node):
        if isinstance(n, ast.Assign) and isinstance(n.value, ast.Call) and W.call_name(n.value) == "_unary_graph" and isinstance(n.targets[0], ast.Name):
            gname = n.targets[0].id
    if gname is None:
        raise AnalysisError("cfg.py::CFG.unarycycleremove: unary graph variable not found")
    acyc = [c for c in _adds(f, recv=None) if isinstance(c.func.value, ast.Name) and len(c.args) == 1 and W.single_def(f.node, c.func.value.id) is not None
            and norm(W.single_def(f.node, c.func.value.id)) == "set()"]
    if not acyc:
        raise AnalysisError("cfg.py::CFG.unarycycleremove: acyclic-set insertion not found")
    aset = acyc[0].func.value.id
    bk = None
    for n in walk_live(f.node):
        if isinstance(n, ast.Assign) and isinstance(n.targets[0], ast.Name) and norm(n.value) == f"{gname}.buckets":
            bk = n.targets[0].id
    if bk is None:
        # positive evidence of the classic slip: the unary rules to skip are chosen by a property of each end point taken alone
        # ("head is cyclic and body is cyclic": two membership tests in one set) instead of a relation between them ("same component")
        def conj(e):
            e = W.canon_ast(f.node, e, e)
            if isinstance(e, ast.BoolOp) and isinstance(e.op, ast.And):
                out = []
                for v in e.values:
                    out.extend(conj(v))
                return out
            return [e]

        for n in walk_live(f.node):
            if isinstance(n, ast.If) and isinstance(n.test, ast.BoolOp) and isinstance(n.test.op, ast.And):
                parts = conj(n.test)
                ins = [v for v in parts if isinstance(v, ast.Compare) and len(v.ops) == 1 and isinstance(v.ops[0], (ast.In, ast.NotIn))
                       and isinstance(v.comparators[0], ast.Name)]
                by_set = {}
                for v in ins:
                    by_set.setdefault((v.comparators[0].id, type(v.ops[0]).__name__), []).append(norm(v.left))
                for (sname, _op), lefts in by_set.items():
                    heads = [x for x in lefts if x.endswith(".head")]
                    bodies = [x for x in lefts if ".body[0]" in x]
                    joint = any(isinstance(v, ast.Compare) and ".head" in norm(v) and ".body[0]" in norm(v) for v in parts)
                    if heads and bodies and not joint:
                        r.add(f, n, False, f"`{norm(n.test)}` skips a unary rule when its head and its body each pass a test against `{sname}` on their own: "
                              f"that says both lie on *some* unary cycle, not on the *same* one; a unary rule linking two different cyclic components "
                              f"is dropped although no block closure covers it (weight is lost)",
                              construct="unarycycleremove: which unary rules the closure replaces")
                        return r
        raise AnalysisError("cfg.py::CFG.unarycycleremove: SCC bucket map not found")
    for c in acyc:
        facts = W.cguard_facts(f.node, c)
        x = norm(c.args[0])
        single = any((cmp := W.fact_cmp(ft)) and cmp[1] is ast.Eq and norm(cmp[0]).startswith("len(") and norm(cmp[2]) == "1" for ft in facts)
        zero = any((cmp := W.fact_cmp(ft)) and cmp[1] is ast.Eq and norm(cmp[0]) == f"{gname}[{x}, {x}]" and norm(cmp[2]).endswith(".zero") for ft in facts)
        ok = single and zero
        r.add(f, c, ok, "" if ok else f"`{x}` is declared acyclic without `len(nodes) == 1 and {gname}[{x}, {x}] == R.zero`: a unary "
              f"self-loop X→X (star = one in idempotent semirings) is then copied into the result", slots=dict(singleton=single, zero_self_loop=zero))
    res = _result_var(f)
    n_copy = 0
    for c in [c for c in _adds(f) if norm(c.func.value) in res and len(c.args) >= 2]:
        ex, st = _body_args(c)
        if not st or not norm(st[0]).endswith(".body"):
            continue
        n_copy += 1
        rv = norm(st[0]).rsplit(".", 1)[0]
        facts = W.cguard_facts(f.node, c)
        dom = False
        for ft in facts:
            t = ft.test
            if not ft.pol and isinstance(t, ast.BoolOp) and isinstance(t.op, ast.And):
                parts = [norm(v) for v in t.values]
                if f"len({rv}.body) == 1" in parts and any((bk in p or f"{gname}.buckets" in p) and f"{rv}.body[0]" in p and f"{rv}.head" in p and "==" in p for p in parts):
                    dom = True
            if ft.pol and norm(t) == f"{rv}.head in {aset}":
                dom = True
            if ft.pol and isinstance(t, ast.BoolOp) and isinstance(t.op, ast.Or):
                parts = [norm(v) for v in t.values]
                if f"len({rv}.body) != 1" in parts and any((bk in p or f"{gname}.buckets" in p) and "!=" in p for p in parts):
                    dom = True
        head = norm(c.args[1])
        helpers = [g.name for g in P.funcs.values() if g.outer is f]
        renamed = any(head == f"{h}({rv}.head)" for h in helpers) or any(ft.pol and norm(ft.test) == f"{rv}.head in {aset}" for ft in facts)
        ok = dom and renamed
        r.add(f, c, ok, "" if ok else f"`{first_line(c)}` copies an input rule that may be a unary rule inside a cyclic SCC "
              f"(or keeps a cyclic head un-renamed)", slots=dict(dominated=dom, head_renamed=renamed))
    if n_copy == 0:
        raise AnalysisError("cfg.py::CFG.unarycycleremove: rule-copy site not found")
    r.min_instances = 2
    return r


# ---------------------------------------------------------------- GUARD-VALIDATOR

T_, S_, N_ = "t", "S", "n"


class _AbsRule:
    def __init__(self, head, body):
        self.head = head
        self.body = body


def _aeval(e, env, selfname="self"):
    """abstract evaluation of the validator's predicates over an abstract rule"""
    if isinstance(e, ast.BoolOp):
        vals = [_aeval(v, env) for v in e.values]
        return all(vals) if isinstance(e.op, ast.And) else any(vals)
    if isinstance(e, ast.UnaryOp) and isinstance(e.op, ast.Not):
        return not _aeval(e.operand, env)
    if isinstance(e, ast.Compare) and len(e.ops) == 1:
        a, b = _aeval(e.left, env), _aeval(e.comparators[0], env)
        op = e.ops[0]
        if isinstance(op, ast.Eq):
            return a == b
        if isinstance(op, ast.NotEq):
            return a != b
        if isinstance(op, ast.Lt):
            return a < b
        if isinstance(op, ast.LtE):
            return a <= b
        if isinstance(op, ast.Gt):
            return a > b
        if isinstance(op, ast.GtE):
            return a >= b
        if isinstance(op, ast.In):
            return a in b
        if isinstance(op, ast.NotIn):
            return a not in b
        raise AnalysisError(f"validator: comparison {norm(e)} not understood")
    if isinstance(e, ast.Call):
        nm = W.call_name(e)
        if nm == "len":
            return len(_aeval(e.args[0], env))
        if nm == "is_terminal":
            return _aeval(e.args[0], env) == T_
        if nm == "is_nonterminal":
            return _aeval(e.args[0], env) != T_
        if nm in ("all", "any") and isinstance(e.args[0], (ast.GeneratorExp, ast.ListComp)):
            g = e.args[0]
            gen = g.generators[0]
            seq = _aeval(gen.iter, env)
            vals = []
            for x in seq:
                env2 = dict(env)
                env2[gen.target.id] = x
                if all(_aeval(c, env2) for c in gen.ifs):
                    vals.append(_aeval(g.elt, env2))
            return all(vals) if nm == "all" else any(vals)
        if nm == "tuple" and not e.args:
            return ()
        raise AnalysisError(f"validator: call {norm(e)} not understood")
    if isinstance(e, ast.Attribute):
        if norm(e) == "self.S":
            return S_
        if norm(e) == "self.V":
            return (T_,)
        base = _aeval(e.value, env)
        if isinstance(base, _AbsRule):
            return getattr(base, e.attr)
        raise AnalysisError(f"validator: attribute {norm(e)} not understood")
    if isinstance(e, ast.Subscript):
        base = _aeval(e.value, env)
        idx = e.slice
        if isinstance(idx, ast.Constant):
            if idx.value >= len(base) or -idx.value > len(base):
                raise IndexError
            return base[idx.value]
        raise AnalysisError(f"validator: subscript {norm(e)} not understood")
    if isinstance(e, ast.Name):
        if e.id in env:
            return env[e.id]
        raise AnalysisError(f"validator: name {e.id} not understood")
    if isinstance(e, ast.Constant):
        return e.value
    if isinstance(e, ast.Tuple):
        return tuple(_aeval(x, env) for x in e.elts)
    raise AnalysisError(f"validator: expression {norm(e)} not understood")


def _run_block(stmts, env):
    """abstractly run the loop body for one rule: 'invalid' if the rule is yielded, else 'valid'"""
    for s in stmts:
        if isinstance(s, ast.If):
            try:
                c = _aeval(s.test, env)
            except IndexError:
                return "error"
            out = _run_block(s.body if c else s.orelse, env)
            if out is not None:
                return out
        elif isinstance(s, ast.Assign) and len(s.targets) == 1 and isinstance(s.targets[0], ast.Name):
            try:
                env[s.targets[0].id] = _aeval(s.value, env)
            except IndexError:
                env[s.targets[0].id] = False  # short-circuit would have prevented the access: len test fails first
        elif isinstance(s, ast.Continue):
            return "valid"
        elif isinstance(s, ast.Expr) and isinstance(s.value, ast.Yield):
            return "invalid"
        elif isinstance(s, ast.Assert):
            continue
        elif isinstance(s, ast.Pass):
            continue
        else:
            raise AnalysisError(f"validator: statement `{first_line(s)}` not understood")
    return None


def rule_guard_validator(P):
    r = RuleResult("GUARD-VALIDATOR", "the CNF validator (_find_invalid_cnf_rule) is evaluated over the finite abstract domain of "
                   "rule shapes (head ∈ {S, other}; |body| ∈ {0,1,2,3}; each symbol ∈ {terminal, S, other nonterminal}): it must "
                   "accept exactly {S→ε, A→a, A→B C with B, C nonterminals ≠ S}", "in_cnf() means CNF")
    f = P.func("cfg.py::CFG._find_invalid_cnf_rule")
    r.looked_at(f)
    loops = [n for n in f.node.body if isinstance(n, ast.For)]
    if len(loops) != 1 or not isinstance(loops[0].target, ast.Name):
        raise AnalysisError("cfg.py::CFG._find_invalid_cnf_rule: expected one loop over the rules")
    var = loops[0].target.id
    shapes = []
    for head in (S_, N_):
        for k in range(0, 4):
            for body in itertools.product((T_, S_, N_), repeat=k):
                shapes.append((head, body))
    wrong = []
    for head, body in shapes:
        want = (len(body) == 0 and head == S_) or (len(body) == 1 and body[0] == T_) or (len(body) == 2 and all(b == N_ for b in body))
        got = _run_block(loops[0].body, {var: _AbsRule(head, body)})
        if got is None:
            got = "valid"
        acc = got == "valid"
        if acc != want:
            wrong.append((head, body, "accepted" if acc else "rejected"))
    ok = not wrong
    r.add(f, loops[0], ok, "" if ok else f"validator misjudges {len(wrong)} of {len(shapes)} rule shapes, e.g. "
          f"{wrong[0][0]} → {' '.join(wrong[0][1]) or 'ε'} is {wrong[0][2]}", slots=dict(shapes=len(shapes), misjudged=[f"{h}→{' '.join(b) or 'ε'}: {w}" for h, b, w in wrong[:6]]),
          construct="_find_invalid_cnf_rule over 80 abstract rule shapes")
    g = P.func("cfg.py::CFG.in_cnf")
    r.looked_at(g)
    rets = [n for n in walk_live(g.node) if isinstance(n, ast.Return)]
    txt = norm(rets[0].value) if rets else ""
    ok = txt in ("len(list(self._find_invalid_cnf_rule())) == 0", "not any(self._find_invalid_cnf_rule())",
                 "not list(self._find_invalid_cnf_rule())", "not any((True for _ in self._find_invalid_cnf_rule()))")
    r.add(g, rets[0] if rets else g.node, ok, "" if ok else f"in_cnf is `{txt}`, not 'the validator yields nothing'")
    r.min_instances = 2
    return r


def rule_guard_cnfassert(P):
    r = RuleResult("GUARD-CNFASSERT", "`cnf` returns only a grammar on which `assert <it>.in_cnf()` was executed (A4: asserts run)",
                   "cnf's result passed the validator")
    f = P.func("cfg.py::CFG.cnf")
    r.looked_at(f)
    for ret in [n for n in walk_live(f.node) if isinstance(n, ast.Return) and n.value is not None]:
        name = ret.value.id if isinstance(ret.value, ast.Name) else None
        facts = W.guard_facts(ret)
        ok = name is not None and any(ft.pol and ft.kind == "assert" and norm(ft.test) == f"{name}.in_cnf()" for ft in facts)
        r.add(f, ret, ok, "" if ok else "the returned grammar was not asserted to be in CNF")
    r.min_instances = 1
    return r


# ---------------------------------------------------------------- GUARD-TRIMUSABLE


def rule_guard_trim(P):
    r = RuleResult("GUARD-TRIMUSABLE", "trim: the generating set C is computed bottom-up, the kept set T top-down. (I1) every "
                   "insertion into T, including the seed, is dominated by a membership-in-C fact for the inserted symbol; (I2) every "
                   "loop that follows a rule to extend C or T is dominated by a whole-body test of that rule against C "
                   "(a per-symbol test keeps symbols reachable only through unusable rules)",
                   "every kept symbol is generating and reachable through usable rules")
    f = P.func("cfg.py::CFG.trim")
    r.looked_at(f)
    calls = W.calls_named(f.node, "_trim")
    if len(calls) != 2:
        raise AnalysisError("cfg.py::CFG.trim: expected two _trim(...) calls (bottom-up only / full)")
    cname = next((n.id for c in calls[:1] for n in ast.walk(c.args[0]) if isinstance(n, ast.Name)), None)
    tnames = [n.id for n in ast.walk(calls[1].args[0]) if isinstance(n, ast.Name) and n.id != cname]
    if cname is None or not tnames:
        raise AnalysisError("cfg.py::CFG.trim: cannot identify the generating set / kept set variables")
    tname = tnames[0]

    def whole_body_fact(facts, rulevar, setname):
        for ft in facts:
            if not ft.pol:
                continue
            t = norm(ft.test)
            if t in (f"all((b in {setname} for b in {rulevar}.body))", f"set({rulevar}.body) <= {setname}",
                     f"all(b in {setname} for b in {rulevar}.body)"):
                return True
            if isinstance(ft.test, ast.Call) and W.call_name(ft.test) == "all" and isinstance(ft.test.args[0], ast.GeneratorExp):
                g = ft.test.args[0]
                if norm(g.generators[0].iter) == f"{rulevar}.body" and isinstance(g.elt, ast.Compare) and isinstance(g.elt.ops[0], ast.In) \
                        and norm(g.elt.comparators[0]) == setname and norm(g.elt.left) == norm(g.generators[0].target):
                    return True
        return False

    # seeds
    for st, val in W.assignments_to(f.node, tname):
        if val is None:
            continue
        elems = []
        ok = True
        if isinstance(val, ast.IfExp):
            c = W.cmp_parts(val.test)
            inner = val.body
            if isinstance(inner, ast.Set):
                for e in inner.elts:
                    ok = ok and c is not None and isinstance(c[1], ast.In) and norm(c[0]) == norm(e) and norm(c[2]) == cname
            empty = norm(val.orelse) == "set()"
            ok = ok and empty
        elif isinstance(val, ast.Set):
            facts = W.guard_facts(st)
            for e in val.elts:
                ok = ok and any(ft.pol and norm(ft.test) == f"{norm(e)} in {cname}" for ft in facts)
        elif norm(val) == "set()":
            ok = True
        else:
            ok = False
        r.add(f, st, ok, "" if ok else f"`{first_line(st)}` seeds the kept set without checking that the start symbol is generating: "
              f"a grammar with empty language trims to itself (S→a S) instead of the empty rule set",
              slots=dict(invariant="I1 (seed)"), witness="S→a S trims to itself; cotrim gives [] (DESIGN §5 D5b)" if not ok else None)
    # insertions
    n_ins = 0
    for c in _adds(f, names=("add",)):
        recv = norm(c.func.value)
        if recv not in (tname, cname) or len(c.args) != 1:
            continue
        n_ins += 1
        sym = W.cnorm(f.node, c.args[0], c)
        facts = W.cguard_facts(f.node, c)
        # which rule variable is being followed?  the innermost `for <e> in incoming/outgoing[...]`
        rulevar = None
        for a in ancestors(c):
            if isinstance(a, ast.For) and isinstance(a.target, ast.Name) and isinstance(a.iter, ast.Subscript):
                rulevar = a.target.id
                break
        if recv == tname:
            i1 = any(ft.pol and norm(ft.test) == f"{sym} in {cname}" for ft in facts) or \
                (rulevar is not None and whole_body_fact(facts, rulevar, cname) and _ranges_over_body(c, sym, rulevar))
            i2 = rulevar is not None and whole_body_fact(facts, rulevar, cname)
            r.add(f, c, i1 and i2, "" if i1 and i2 else
                  (f"`{tname}.add({sym})`: " + ("" if i1 else "the symbol is not known to be generating; ")
                   + ("" if i2 else f"the rule `{rulevar}` being followed is not known to be usable (whole body in {cname}): "
                      f"S→A B, A→a, B→B keeps A→a although the language is empty")),
                  slots=dict(invariant="I1+I2 (top-down)", symbol_in_C=i1, whole_body_test=i2),
                  witness="S→A B, A→a, B→B trims to {A→a} (DESIGN §5 D5a)" if not (i1 and i2) else None)
        else:
            i2 = rulevar is not None and whole_body_fact(facts, rulevar, cname) and sym == f"{rulevar}.head"
            r.add(f, c, i2, "" if i2 else f"`{cname}.add({sym})`: a head is declared generating without all of its body being so",
                  slots=dict(invariant="I2 (bottom-up)"))
    if n_ins < 2:
        raise AnalysisError("cfg.py::CFG.trim: insertions into the generating / kept sets not found")
    # the final filter must be _trim(T) or _trim(T & C)
    a = norm(calls[1].args[0])
    ok = a in (tname, f"{tname} & {cname}", f"{cname} & {tname}")
    r.add(f, calls[1], ok, "" if ok else f"trim filters with `{a}`")
    r.min_instances = 4
    return r


def _ranges_over_body(node, sym, rulevar):
    for a in ancestors(node):
        if isinstance(a, ast.For) and isinstance(a.target, ast.Name) and a.target.id == sym and norm(a.iter) == f"{rulevar}.body":
            return True
    return False


# ---------------------------------------------------------------- GUARD-DIV

DIV_EXEMPT = {
    ("parse/earley_rescaled.py", "Earley.__call__"): "divides by a product of rescale coefficients, each assigned under the num/den guard or the literal 1",
    ("lark_interface.py", "LarkStuff.convert"): "1 / lhs_count[head]: a Counter of heads that occur (≥ 1)",
    ("chart.py", "Chart.__str__"): "display",
    ("cfg.py", "CFG.expected_length"): "no division",
    ("wfsa/field_wfsa.py", "WFSA.graphviz"): "display",
}
DIV_SKIP_MODULES = {"semiring.py": "star bodies (1/(1-x)) belong to C16's domain clause", "util.py": "display", "lm.py": "no weights"}


def _nonzero_fact(facts, den):
    d = norm(den)
    for ft in facts:
        c = W.fact_cmp(ft)
        if c is None:
            continue
        l, op, rr = c
        for a, b in ((l, rr), (rr, l)):
            # `(z := Z[x]) != 0` tests z and Z[x] alike
            names = [norm(a)] + ([norm(a.target), norm(a.value)] if isinstance(a, ast.NamedExpr) else [])
            if d in names and (norm(b) in ("0", "0.0") or norm(b).endswith(".zero") or norm(b) == "zero"):
                if op is ast.NotEq or op is ast.Gt:
                    return True
    return False


def rule_guard_div(P, scope=None):
    r = RuleResult("GUARD-DIV", "every division / inversion by a data-dependent quantity is dominated by a non-zero test of the "
                   "same expression (early continue/return, else-branch), or is in the exempt table with its reason; Gram–Schmidt "
                   "bases only ever contain vectors that passed a non-zero / non-redundancy test",
                   "no division by a zero weight")
    n = 0
    for q in sorted(P.funcs):
        f = P.funcs[q]
        rel = f.module.rel
        if rel in DIV_SKIP_MODULES:
            continue
        if scope is not None and not any(q.startswith(s) for s in scope):
            continue
        fn = q.split("::", 1)[1]
        for nd in walk_live(f.node):
            den = None
            if isinstance(nd, ast.BinOp) and isinstance(nd.op, ast.Div):
                den = nd.right
            elif isinstance(nd, ast.BinOp) and isinstance(nd.op, ast.Pow) and (W.int_const(nd.right) or 0) < 0:
                den = nd.left
            if den is None:
                continue
            if isinstance(den, ast.Constant):
                continue
            r.looked_at(f)
            n += 1
            key = (rel, fn.split(".<")[0])
            top = (rel, ".".join(fn.split(".")[:2]))
            if key in DIV_EXEMPT or top in DIV_EXEMPT:
                r.add(f, nd, True, slots=dict(denominator=norm(den), exempt=DIV_EXEMPT.get(key) or DIV_EXEMPT.get(top)))
                continue
            if fn == "proj" and rel == "wfsa/field_wfsa.py":
                continue  # judged at the callers below
            facts = W.cguard_facts(f.node, nd)
            ok = _nonzero_fact(facts, den) or _nonzero_fact(facts, W.canon_ast(f.node, den, nd))
            r.add(f, nd, ok, "" if ok else f"`{norm(nd)}`: nothing on the way here excludes `{norm(den)}` being zero",
                  slots=dict(denominator=norm(den), facts=[repr(x) for x in facts][:6]),
                  witness=("acyclic automaton with a dead state (0 -a→ 1 final, 0 -b→ 2): m.determinize → ZeroDivisionError "
                           "(DESIGN §5 D20)") if not ok and "determinize" in fn else None)
    # Gram-Schmidt: every list handed to proj(u, basis)
    if scope is None or any("field_wfsa" in s for s in scope):
        for q in ("wfsa/field_wfsa.py::Simple.counterexample", "wfsa/field_wfsa.py::Simple.forward_basis"):
            f = P.func(q)
            r.looked_at(f)
            calls = W.calls_named(f.node, "proj")
            if not calls:
                raise AnalysisError(f"{q}: proj call not found")
            for c in calls:
                b = c.args[1]
                if not isinstance(b, ast.Name):
                    raise AnalysisError(f"{q}: basis argument `{norm(b)}` not a local list")
                # seeds
                seed = W.single_def(f.node, b.id)
                ok = True
                why = []
                if isinstance(seed, ast.List):
                    for e in seed.elts:
                        # canonical on both sides: `v0 = self.start; basis = [v0]` is the same seed as `basis = [self.start]`
                        facts = W.cguard_facts(f.node, W.stmt_of(seed))
                        ce = W.cnorm(f.node, e, W.stmt_of(seed))
                        okE = any((not ft.pol) and norm(ft.test) == f"approx_equal({ce}, 0)" for ft in facts)
                        if not okE:
                            ok = False
                            why.append(f"seed `{norm(e)}` may be the zero vector (q @ q = 0 → NaN basis, the search never terminates)")
                else:
                    ok = False
                    why.append("basis seed not recognised")
                for ap in [x for x in walk_live(f.node) if isinstance(x, ast.Call) and W.call_name(x) == "append" and W.is_name(W.receiver(x), b.id)]:
                    facts = W.guard_facts(ap)
                    okA = any((not ft.pol) and norm(ft.test).startswith("approx_equal(") for ft in facts)
                    if not okA:
                        ok = False
                        why.append(f"`{first_line(ap)}` is not under a non-redundancy test")
                r.add(f, c, ok, "; ".join(why), slots=dict(basis=b.id),
                      witness=".min on an automaton with no initial (or no final) state never returns (DESIGN §5 D11)" if not ok else None)
    r.min_instances = 6 if scope is None else 1
    return r


# ---------------------------------------------------------------- TOL-TWOSIDED


def rule_tol_twosided(P):
    r = RuleResult("TOL-TWOSIDED", "in the real-weighted automata (field_wfsa.py) every 'is this vector negligible / are these equal' decision "
                   "is two-sided: it goes through approx_equal / np.allclose / np.isclose or compares an abs()/norm against the tolerance. "
                   "`x.max() > tol` without abs calls a vector with only negative entries negligible, so machines with negative weights "
                   "lose basis vectors (min returns a smaller, non-equivalent machine)", "tolerance tests treat negative residuals like positive ones")
    rel = "wfsa/field_wfsa.py"
    TWO = ("approx_equal", "allclose", "isclose", "array_equal", "norm", "abs", "absolute", "fabs")
    n = 0
    for f in P.funcs_in(rel):
        r.looked_at(f)
        for c in walk_live(f.node):
            if isinstance(c, ast.Call) and W.call_name(c) in ("approx_equal", "allclose", "isclose"):
                n += 1
                r.add(f, c, True, slots=dict(test=norm(c)), nontrivial=False)
            if isinstance(c, ast.Compare) and len(c.ops) == 1 and isinstance(c.ops[0], (ast.Gt, ast.GtE, ast.Lt, ast.LtE)):
                sides = [c.left, c.comparators[0]]
                tol = [s for s in sides if any(isinstance(x, ast.Constant) and isinstance(x.value, float) and 0 < abs(x.value) < 1e-3 for x in ast.walk(s))]
                if not tol:
                    continue
                other = [s for s in sides if s not in tol] or sides[:1]
                o = other[0]
                reduces = any(isinstance(x, ast.Call) and W.call_name(x) in ("max", "min", "sum", "amax", "amin") for x in ast.walk(o))
                two = any(isinstance(x, ast.Call) and W.call_name(x) in TWO for x in ast.walk(o)) or \
                    any(isinstance(x, ast.BinOp) and isinstance(x.op, ast.Pow) for x in ast.walk(o))
                n += 1
                if reduces and not two:
                    r.add(f, c, False, f"`{norm(c)}` compares a signed quantity (`{norm(o)}`) with a tolerance: a residual whose entries are all "
                          f"negative passes as negligible")
                else:
                    r.add(f, c, True, slots=dict(test=norm(c)), nontrivial=False)
    if n < 5:
        raise AnalysisError(f"TOL-TWOSIDED: {n} tolerance tests found in {rel}, 6 confirmed by hand")
    r.min_instances = 5
    return r
