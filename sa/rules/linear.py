"""Rules for the algebraic path solver and graph builders: FACTOR-SOLVE, TARJAN, ACCUM-GRAPH, DET-KEY, FACTOR-TRIM."""

from __future__ import annotations

import ast
import re

from ..model import AnalysisError, norm, walk_live, parent, ancestors, first_line
from ..report import RuleResult
from .. import walk as W


def ordered_factors(f, e, depth=0):
    """ordered list of factor nodes of a product, inlining single-definition local names that are products"""
    out = []
    e = W.canon_ast(f.node, e, e)

    def go(x, d):
        if isinstance(x, ast.BinOp) and isinstance(x.op, ast.Mult):
            go(x.left, d)
            go(x.right, d)
        elif isinstance(x, ast.Name) and d < 3:
            v = W.single_def(f.node, x.id)
            if v is not None and isinstance(v, ast.BinOp) and isinstance(v.op, ast.Mult):
                go(v, d + 1)
            else:
                out.append(x)
        else:
            out.append(x)

    go(e, depth)
    return out


def _idx(e):
    """index texts of a subscript: X[a] -> [a]; X[a, b] -> [a, b]"""
    if not isinstance(e, ast.Subscript):
        return None
    s = e.slice
    if isinstance(s, ast.Tuple):
        return [norm(x) for x in s.elts]
    return [norm(s)]


def rule_factor_solve(P):
    r = RuleResult("FACTOR-SOLVE", "the block solvers multiply in the order of the equations (weights need not commute): solve_left "
                   "(x = xA + b) accumulates vec[a]·M[a,b] into position b, solve_right (x = Ax + b) accumulates M[a,b]·vec[b] into "
                   "position a; Lehmann's elimination step is old[i,k] + old[i,j]·star(old[j,j])·old[j,k]; the one-node closure is "
                   "star(E[i,i]); the reflexive step adds one on the diagonal", "path weights are multiplied in path order")
    for name, side in (("solve_left", "left"), ("solve_right", "right")):
        f = P.func(f"linear.py::WeightedGraph.{name}")
        r.looked_at(f)
        prods = [n for n in walk_live(f.node) if isinstance(n, ast.AugAssign) and isinstance(n.op, ast.Add)
                 and isinstance(W.canon_ast(f.node, n.value, n), ast.BinOp) and isinstance(W.canon_ast(f.node, n.value, n).op, ast.Mult)]
        if len(prods) != 2:
            raise AnalysisError(f"{f.qual}: expected two accumulating products, found {len(prods)}")
        for n in prods:
            fs = ordered_factors(f, n.value)
            t = _idx(n.target)
            if t is None and isinstance(n.target, ast.Name):
                # a local accumulator stored into the vector afterwards:  total += ..;  enter[j] = total
                st_ = [x for x in walk_live(f.node) if isinstance(x, ast.Assign) and isinstance(x.targets[0], ast.Subscript) and W.is_name(x.value, n.target.id)]
                if len(st_) == 1:
                    t = _idx(st_[0].targets[0])
                if t is None:
                    r.undecided(f, n, f"`{first_line(n)}` accumulates into the local `{n.target.id}`; where it is stored was not recognised",
                                construct=f"{name}: accumulator {n.target.id}")
                    continue
            ok = False
            if len(fs) == 2 and t and len(t) == 1:
                ia, ib = _idx(fs[0]), _idx(fs[1])
                if side == "left":
                    ok = ia is not None and ib is not None and len(ia) == 1 and len(ib) == 2 and ia[0] == ib[0] and ib[1] == t[0]
                else:
                    ok = ia is not None and ib is not None and len(ia) == 2 and len(ib) == 1 and ia[1] == ib[0] and ia[0] == t[0]
            r.add(f, n, ok, "" if ok else (f"`{first_line(n)}`: {name} must accumulate "
                                           + ("vec[a]·M[a,b] into [b]" if side == "left" else "M[a,b]·vec[b] into [a]")
                                           + " — the factors are transposed / in the wrong order (visible for non-commutative weights "
                                             "and for components with an asymmetric closure)"),
                  slots=dict(factors=[norm(x) for x in fs], target=norm(n.target)))
        # b enters once per node of the block
        bs = [n for n in walk_live(f.node) if isinstance(n, ast.AugAssign) and isinstance(n.op, ast.Add) and isinstance(W.canon_ast(f.node, n.value, n), ast.Subscript)
              and W.is_name(W.canon_ast(f.node, n.value, n).value, f.params[1])]
        ok = len(bs) == 1 and _idx(bs[0].target) == _idx(W.canon_ast(f.node, bs[0].value, bs[0]))
        if not bs:
            # b[j] enters through the initial value of a local accumulator (`total = zero + b[j]`) or similar
            reads = [x for x in walk_live(f.node) if isinstance(x, ast.Subscript) and W.is_name(x.value, f.params[1]) and isinstance(x.ctx, ast.Load)]
            if len(reads) == 1 and len(W.enclosing_loops(reads[0])) == 2:
                r.undecided(f, reads[0], f"{f.params[1]}[j] enters through `{first_line(W.stmt_of(reads[0]))}`, not through `+=` into the vector", construct=f"{name}: right-hand side")
                continue
        r.add(f, bs[0] if bs else f.node, ok, "" if ok else f"the right-hand side {f.params[1]}[j] must enter each node j exactly once")
    c = P.func("linear.py::WeightedGraph._closure")
    r.looked_at(c)
    steps = [n for n in walk_live(c.node) if isinstance(n, ast.Assign) and isinstance(n.targets[0], ast.Subscript) and len(W.enclosing_loops(n)) == 3]
    if len(steps) != 1:
        raise AnalysisError(f"{c.qual}: elimination step not found")
    st = steps[0]
    terms = W.summands(st.value)
    t = _idx(st.targets[0])
    ok = False
    slots = {}
    if len(terms) == 2 and t and len(t) == 2:
        plain = [x for x in terms if not (isinstance(x, ast.BinOp) or isinstance(x, ast.Name))]
        prod = [x for x in terms if x not in plain]
        if len(plain) == 1 and len(prod) == 1:
            fs = ordered_factors(c, prod[0])
            slots = dict(factors=[norm(x) for x in fs], kept=norm(plain[0]))
            if len(fs) == 3 and _idx(plain[0]) == t:
                a, s, b = fs
                sd = W.deref(c.node, s)
                star_ok = isinstance(sd, ast.Call) and W.call_name(sd) == "star" and sd.args and _idx(sd.args[0]) is not None \
                    and len(set(_idx(sd.args[0]))) == 1
                if star_ok:
                    j = _idx(sd.args[0])[0]
                    ok = _idx(a) == [t[0], j] and _idx(b) == [j, t[1]] and norm(a.value) == norm(b.value) == norm(plain[0].value) == norm(sd.args[0].value)
    r.add(c, st, ok, "" if ok else f"`{first_line(st)}` is not old[i,k] + old[i,j]·star(old[j,j])·old[j,k] in that order", slots=slots)
    # double buffering: when the round ends with `old, new = new, old`, the buffer written next must start empty in every round
    rnd = W.enclosing_loops(st)[-1] if W.enclosing_loops(st) else None
    rnd = next((lp_ for lp_ in W.enclosing_loops(st) if lp_ in c.node.body or any(lp_ in getattr(x, "body", []) for x in c.node.body)), rnd)
    outer = [lp_ for lp_ in W.enclosing_loops(st)]
    outer = max(outer, key=lambda l_: -W.pos(l_)[0]) if outer else None  # outermost
    if outer is not None and isinstance(st.targets[0].value, ast.Name):
        buf = st.targets[0].value.id
        swap = [n for n in outer.body if isinstance(n, ast.Assign) and isinstance(n.targets[0], ast.Tuple) and isinstance(n.value, ast.Tuple)
                and buf in [norm(e) for e in n.targets[0].elts] and sorted(norm(e) for e in n.targets[0].elts) == sorted(norm(e) for e in n.value.elts)
                and [norm(e) for e in n.targets[0].elts] != [norm(e) for e in n.value.elts]]
        if swap:
            fresh = [n for n in outer.body if W.pos(n) < W.pos(W.stmt_of(st)) and (
                (isinstance(n, ast.Expr) and isinstance(n.value, ast.Call) and isinstance(n.value.func, ast.Attribute) and n.value.func.attr == "clear" and W.is_name(n.value.func.value, buf))
                or (isinstance(n, ast.Assign) and W.is_name(n.targets[0], buf) and isinstance(n.value, ast.Call)))]
            ok = bool(fresh)
            r.add(c, swap[0], ok, "" if ok else f"the buffers are swapped at the end of every round but `{buf}` is not emptied (or re-allocated) at the start of the "
                  f"next one: it still holds the entries of two rounds ago; every (i,k) in N×N is overwritten, but entries outside the block (edges "
                  f"entering it, present when the first buffer is built from more than N×N) survive in one parity and are returned", construct="_closure: double buffer")
    one = [n for n in walk_live(c.node) if isinstance(n, ast.AugAssign) and isinstance(n.op, ast.Add) and norm(n.value).endswith(".one")]
    ok = len(one) == 1 and _idx(one[0].target) is not None and len(set(_idx(one[0].target))) == 1
    r.add(c, one[0] if one else c.node, ok, "" if ok else "the reflexive closure must add one on the diagonal")
    single = [n for n in walk_live(c.node) if isinstance(n, ast.Return) and isinstance(n.value, ast.Dict)]
    ok = len(single) == 1 and any(ft.pol and "len(" in norm(ft.test) and "== 1" in norm(ft.test) for ft in W.guard_facts(single[0]))
    if ok:
        v = single[0].value.values[0]
        ok = isinstance(v, ast.Call) and W.call_name(v) == "star" and _idx(v.args[0]) is not None and len(set(_idx(v.args[0]))) == 1
    r.add(c, single[0] if single else c.node, ok, "" if ok else "the one-node closure must be {(i,i): star(E[i,i])}")
    r.min_instances = 9
    return r


def rule_tarjan(P):
    r = RuleResult("TARJAN", "scc_decomposition: the low-link of v is only ever lowered (lowest[v] = min(lowest[v], lowest[w])) for tree "
                   "children and for successors still on the stack; v is a root iff lowest[v] == its own number; the component is "
                   "popped down to v and yielded after all successors (post-order)", "the decomposition is Tarjan's")
    dfs = P.funcs.get("linear.py::scc_decomposition.dfs")
    if dfs is None:
        raise AnalysisError("linear.py::scc_decomposition.dfs not found")
    r.looked_at(dfs)
    v = dfs.params[0]
    loop = next((n for n in dfs.node.body if isinstance(n, ast.For)), None)
    if loop is None or not isinstance(loop.target, ast.Name):
        raise AnalysisError("scc_decomposition.dfs: successor loop not found")
    w = loop.target.id
    # names of the low-link table and of the on-stack set, read off the code
    roots0 = [n for n in dfs.node.body if isinstance(n, ast.If) and W.pos(n) > W.end_pos(loop) and isinstance(n.test, ast.Compare)]
    low = None
    for n in roots0:
        for side in (n.test.left, n.test.comparators[0]):
            if isinstance(side, ast.Subscript) and isinstance(side.value, ast.Name) and norm(side.slice) == v:
                low = side.value.id
    if low is None:
        raise AnalysisError("scc_decomposition.dfs: low-link table not found")
    ups = [n for n in walk_live(loop) if isinstance(n, ast.Assign) and isinstance(n.targets[0], ast.Subscript) and norm(n.targets[0]) == f"{low}[{v}]"]
    merged = None
    if len(ups) == 1 and ups[0] in loop.body:
        # one shared update after `if <unvisited>: dfs(w) elif w not in <stack>: continue`
        i = loop.body.index(ups[0])
        prev = loop.body[i - 1] if i else None
        if isinstance(prev, ast.If) and len(prev.orelse) == 1 and isinstance(prev.orelse[0], ast.If):
            e = prev.orelse[0]
            if not e.orelse and len(e.body) == 1 and isinstance(e.body[0], ast.Continue) and isinstance(e.test, ast.Compare) \
                    and isinstance(e.test.ops[0], ast.NotIn) and norm(e.test.left) == w and isinstance(e.test.comparators[0], ast.Name) \
                    and not any(isinstance(x, (ast.Continue, ast.Break, ast.Return)) for b in prev.body for x in ast.walk(b)):
                merged = prev
    if len(ups) == 1 and merged is None and ups[0] in loop.body and not any(isinstance(x, ast.Continue) for x in ast.walk(loop)):
        r.add(dfs, ups[0], False, f"`{first_line(ups[0])}` runs for every successor {w}, also for one whose component has already been emitted (visited, "
              f"no longer on the stack): its low-link leaks into {v} and merges separate components", construct="dfs: tree-edge / on-stack cases")
        return r
    if len(ups) < 2 and merged is None:
        raise AnalysisError("scc_decomposition.dfs: low-link updates not found")
    for n in ups:
        ok = isinstance(n.value, ast.Call) and W.call_name(n.value) == "min" and sorted(norm(a) for a in n.value.args) == sorted([f"{low}[{v}]", f"{low}[{w}]"])
        r.add(dfs, n, ok, "" if ok else f"`{first_line(n)}` can RAISE the low-link of {v} (it forgets a smaller value inherited from an earlier "
              f"child): nested cycles visited in the right order are split into several components")
    # on-stack test for the non-tree case
    non_tree = [n for n in ups if any(ft.pol and isinstance(ft.test, ast.Compare) and isinstance(ft.test.ops[0], ast.In) and norm(ft.test.left) == w
                                      and isinstance(ft.test.comparators[0], ast.Name) for ft in W.guard_facts(n))]
    tree = [n for n in ups if any(ft.pol and f"{low}.get" in norm(ft.test) and "is None" in norm(ft.test) or
                                  ft.pol and norm(ft.test) == f"{w} not in {low}" for ft in W.guard_facts(n))]
    ok = len(non_tree) == 1 and len(tree) == 1
    if merged is not None:
        t = norm(merged.test)
        ok = (f"{low}.get" in t and "is None" in t) or t == f"{w} not in {low}"
    r.add(dfs, loop, ok, "" if ok else "low-links must be updated for unvisited successors (after the recursive call) and for successors on the stack only",
          construct="dfs: tree-edge / on-stack cases")
    roots = [n for n in dfs.node.body if isinstance(n, ast.If) and W.pos(n) > W.end_pos(loop)]
    numname = None
    for n in walk_live(dfs.node):
        if isinstance(n, ast.Assign) and isinstance(n.targets[0], ast.Name) and isinstance(n.value, ast.Name) and W.pos(n) < W.pos(loop):
            numname = n.targets[0].id
    ok = len(roots) == 1 and norm(roots[0].test) in (f"{low}[{v}] == {numname}", f"{numname} == {low}[{v}]")
    r.add(dfs, roots[0] if roots else dfs.node, ok, "" if ok else "root test must be lowest[v] == num after the successor loop")
    if roots:
        ys = [n for n in walk_live(roots[0]) if isinstance(n, ast.Yield)]
        brk = [n for n in walk_live(roots[0]) if isinstance(n, ast.If) and isinstance(n.body[0], ast.Break)]
        ok = len(ys) == 1 and len(brk) == 1 and isinstance(brk[0].test, ast.Compare) and isinstance(brk[0].test.ops[0], ast.Eq) \
            and v in (norm(brk[0].test.left), norm(brk[0].test.comparators[0]))
        r.add(dfs, ys[0] if ys else roots[0], ok, "" if ok else "the component must be popped from the stack down to v inclusive")
    r.min_instances = 4
    return r


ACCUM_GRAPHS = ["wfsa/base.py::WFSA.G", "wfsa/base.py::WFSA.E", "cfg.py::CFG._unary_graph", "cfg.py::CFG._unary_graph_transpose"]


def rule_accum_graph(P):
    r = RuleResult("ACCUM-GRAPH", "graphs whose edges collapse several arcs/rules (WFSA.G ignores labels; the unary graphs merge duplicate "
                   "unary rules) accumulate their weight with `+=`: `=` keeps only the last parallel arc", "parallel edges sum")
    for q in ACCUM_GRAPHS:
        f = P.func(q)
        r.looked_at(f)
        g = None
        for n in walk_live(f.node):
            if isinstance(n, ast.Assign) and isinstance(n.value, ast.Call) and W.call_name(n.value) == "WeightedGraph" and isinstance(n.targets[0], ast.Name):
                g = n.targets[0].id
        if g is None:
            raise AnalysisError(f"{q}: WeightedGraph(...) not found")
        stores = [n for n in walk_live(f.node) if isinstance(n, (ast.Assign, ast.AugAssign)) and
                  any(isinstance(t, ast.Subscript) and W.is_name(t.value, g) for t in ([n.target] if isinstance(n, ast.AugAssign) else n.targets))]
        if not stores:
            raise AnalysisError(f"{q}: no edge store")
        for n in stores:
            ok = isinstance(n, ast.AugAssign) and isinstance(n.op, ast.Add)
            r.add(f, n, ok, "" if ok else f"`{first_line(n)}` overwrites the edge weight: with two arcs between the same pair of states "
                  f"(different labels, or ε next to a symbol) the backward/forward weights, total_weight and push lose mass")
            # which arcs/rules become edges: exactly the expected selection, nothing more restrictive
            want = ACCUM_GUARDS[q]
            got = sorted(t for t in W.cfacts(f.node, n) if not t.startswith("len(") or True)
            lp = next((a for a in ancestors(n) if isinstance(a, ast.For)), None)
            ren = {}
            if lp is not None and isinstance(lp.target, ast.Tuple):
                for k_, e in enumerate(lp.target.elts):
                    if isinstance(e, ast.Name):
                        ren[e.id] = f"t{k_}"
            elif lp is not None and isinstance(lp.target, ast.Name):
                ren[lp.target.id] = "r"

            def canon(t):
                return re.sub(r"\b(" + "|".join(map(re.escape, ren)) + r")\b", lambda m: ren[m.group(1)], t) if ren else t

            gotc = sorted(canon(t) for t in got)
            okg = gotc == sorted(want)
            extra = [t for t in gotc if t not in want]
            missing = [t for t in want if t not in gotc]
            if okg:
                r.add(f, n, True, slots=dict(selection=gotc or ["every arc"]), construct=f"{f.name}: which arcs become edges")
            elif extra and not missing:
                r.add(f, n, False, f"`{first_line(n)}` is reached only under the additional condition(s) {extra}: arcs/rules failing them are left out of the "
                      f"graph although they carry weight (an ε self-loop contributes the factor star(w))", construct=f"{f.name}: which arcs become edges")
            else:
                r.undecided(f, n, f"edge selection {gotc} differs from the expected {sorted(want)}", construct=f"{f.name}: which arcs become edges")
    # every end point is registered as a node even when the stored weight is the zero (isolated nodes have closure one)
    si = P.func("linear.py::WeightedGraph.__setitem__")
    r.looked_at(si)
    regs = [n for n in walk_live(si.node) if isinstance(n, ast.Call) and isinstance(n.func, ast.Attribute) and n.func.attr in ("add", "update")
            and norm(n.func.value) == "self.N"]
    if not regs:
        r.undecided(si, si.node, "node registration (self.N.add / update) not found", construct="__setitem__: node registration")
    for n in regs:
        guards = [t for t in W.cfacts(si.node, n)]
        ok = not guards
        r.add(si, n, ok, "" if ok else f"`{first_line(n)}` registers the end points only when {guards}: a node mentioned only through zero-weight entries is "
              f"missing from N (no K[i,i] = one, b[i] dropped by the solvers, blocks no longer partition the nodes)", construct="__setitem__: node registration")
    r.min_instances = 9
    return r


ACCUM_GUARDS = {
    "wfsa/base.py::WFSA.G": [],
    "wfsa/base.py::WFSA.E": ["EPSILON == t1"],
    "cfg.py::CFG._unary_graph": ["1 == len(r.body)", "self.is_nonterminal(r.body[0])"],
    "cfg.py::CFG._unary_graph_transpose": ["1 == len(r.body)", "self.is_nonterminal(r.body[0])"],
}


def rule_det_key(P):
    r = RuleResult("DET-KEY", "determinize identifies a power state by its full weighted subset (the frozendict yielded by _powerarcs): the "
                   "object tested in `visited`, pushed on the stack and used as the arc target is that same value — keying by the support "
                   "merges subsets with equal states but different residual weights", "power states are weighted subsets")
    f = P.func("wfsa/base.py::WFSA.determinize")
    r.looked_at(f)
    gens = [g.name for g in P.funcs.values() if g.outer is f and any(isinstance(n, ast.Yield) for n in walk_live(g.node))]
    loops = [n for n in walk_live(f.node) if isinstance(n, ast.For) and isinstance(n.iter, ast.Call) and W.call_name(n.iter) in gens]
    if len(loops) != 1 or not isinstance(loops[0].target, ast.Tuple) or len(loops[0].target.elts) != 3:
        raise AnalysisError("determinize: loop over _powerarcs(P) not found")
    lp = loops[0]
    a, q, w = (norm(e) for e in lp.target.elts)
    tests = [n for n in walk_live(lp) if isinstance(n, ast.Compare) and isinstance(n.ops[0], (ast.In, ast.NotIn)) and isinstance(n.comparators[0], ast.Name)]
    arcs = [n for n in walk_live(lp) if isinstance(n, ast.Call) and W.call_name(n) == "add_arc"]
    ok = len(tests) == 1 and norm(tests[0].left) == q and len(arcs) == 1 and norm(arcs[0].args[2]) == q and norm(arcs[0].args[1]) == a \
        and norm(arcs[0].args[3]) == w and not W.guard_facts(arcs[0])[0:0]
    # the arc must be added for every yielded triple (not only for new states)
    if ok:
        ok = not any(ft.kind in ("if", "else") and W._within(ft.origin, lp) for ft in W.guard_facts(arcs[0]))
    r.add(f, lp, ok, "" if ok else "membership in `visited` / the arc target is not the weighted subset yielded by _powerarcs",
          slots=dict(tested=norm(tests[0].left) if tests else None, target=norm(arcs[0].args[2]) if arcs else None))
    r.min_instances = 1
    return r


def rule_factor_trim(P):
    r = RuleResult("FACTOR-TRIM", "WFSA._trim rebuilds the machine from the active states only: initial/final weights and arcs are added "
                   "for i in active, arcs only when their target is active, starting from an empty spawn()", "trimming keeps exactly the active part")
    f = P.func("wfsa/base.py::WFSA._trim")
    r.looked_at(f)
    act = f.params[1]
    sp = [n for n in walk_live(f.node) if isinstance(n, ast.Call) and W.call_name(n) == "spawn"]
    ok = len(sp) == 1 and not any(isinstance(k.value, ast.Constant) and k.value.value for k in sp[0].keywords)
    r.add(f, sp[0] if sp else f.node, ok, "" if ok else "the trimmed machine must start empty: keep_init/keep_stop re-admit dead initial / "
          "unreachable final states")
    for api in ("add_I", "add_F", "add_arc"):
        cs = [n for n in walk_live(f.node) if isinstance(n, ast.Call) and W.call_name(n) == api]
        ok = len(cs) == 1
        if ok:
            c = cs[0]
            loops = [a for a in ancestors(c) if isinstance(a, ast.For)]
            ok = bool(loops) and norm(loops[-1].iter) == act and norm(c.args[0]) == norm(loops[-1].target)
            if api == "add_arc":
                ok = ok and f"{norm(c.args[2])} in {act}" in W.cfacts(f.node, c)
            else:
                ok = ok and W.cnorm(f.node, c.args[1], c) == f"self.{'start' if api == 'add_I' else 'stop'}[{norm(c.args[0])}]"
        r.add(f, cs[0] if cs else f.node, ok, "" if ok else f"{api} must be applied to (and only to) the active states", construct=f"_trim: {api}")
    r.min_instances = 4
    return r
