"""Helper inlining: a second view of the program in which *extracted helpers* are folded back into their callers.

The rules read the code of one function.  A refactoring that moves a block of that function into a nested function or a
private method (`self._attach(prev_cols, next_col, Q)`, `expand(r)`, `enter = self._enter_from_right(block, b, sol)`)
leaves behaviour unchanged but hides the block from an intraprocedural rule, which then (correctly) says UNDECIDED.
`inline_module` undoes such extractions on the syntax tree, conservatively:

  callee   a function nested in the caller, called by its bare name, or a private (`_x`, not dunder) method of the caller's
           class called on `self`/`cls`/the class name; not a property, generator, coroutine or recursive; no *args/**kwargs;
           its body has no `return <value>` except, optionally, one as its last statement, and is more than that one
           statement; no `global`/`nonlocal`.
  call     positional/keyword arguments that bind every parameter (defaults fill the rest); the call is evaluated exactly
           once and unconditionally by its statement (not under a lambda, comprehension, `and`/`or`, conditional expression,
           or a `while` test).
  result   [p = arg ...] + body (locals renamed apart where they collide with the caller's names) + the statement with the
           call replaced by the returned expression.  `x = h(..)` whose helper ends in `return v` (v a helper local) renames
           v to x instead of adding `x = v`.

Nodes keep the line numbers of the helper's text so that reports still point at real source lines.  The transformation
is used only as a fallback view (see report.run_rules): a rule that is UNDECIDED on the program as written is run again on
the inlined program and that answer is taken when it is decided.
"""

from __future__ import annotations

import ast
import copy
import itertools

_counter = itertools.count(1)

# helpers of today's tree that the inliner would fold (recorded 2026-09-24).  Only an efficiency hint for Program.inlined_views:
# per-helper views are built for helpers NOT in this list (i.e. newly extracted ones); correctness does not depend on it.
ESTABLISHED_HELPERS = {"_augment_epsilon_transitions", "_bottom_up_step", "_compose_bottom_up_epsilon", "_fold", "_parse_chart",
                       "_pruned_compose", "_trim", "_unary_graph", "_update", "update"}


def _clone_stmt(st):
    """a fresh copy of a statement (unparse + parse is an order of magnitude faster than copy.deepcopy on ast nodes)"""
    new = ast.parse(ast.unparse(st)).body[0]
    for n in ast.walk(new):
        if hasattr(n, "lineno"):
            n.lineno = getattr(st, "lineno", 0)
            n.end_lineno = getattr(st, "lineno", 0)
    return new


def _clone_expr(e):
    new = ast.parse(ast.unparse(e), mode="eval").body
    for n in ast.walk(new):
        if hasattr(n, "lineno"):
            n.lineno = getattr(e, "lineno", 0)
            n.end_lineno = getattr(e, "lineno", 0)
    return new


def _is_docstring(st):
    return isinstance(st, ast.Expr) and isinstance(st.value, ast.Constant) and isinstance(st.value.value, str)


def _own_nodes(fn):
    """nodes of fn's body, not descending into nested defs/lambdas/classes"""
    stack = list(fn.body)
    while stack:
        n = stack.pop()
        yield n
        if isinstance(n, (ast.FunctionDef, ast.AsyncFunctionDef, ast.Lambda, ast.ClassDef)):
            continue
        stack.extend(ast.iter_child_nodes(n))


def _decorators(fn):
    out = set()
    for d in fn.decorator_list:
        while isinstance(d, ast.Call):
            d = d.func
        out.add(d.attr if isinstance(d, ast.Attribute) else getattr(d, "id", "?"))
    return out


def _eligible(fn, method):
    """None or (body statements, return expression or None)"""
    if not isinstance(fn, ast.FunctionDef):
        return None
    a = fn.args
    if a.vararg or a.kwarg or a.posonlyargs:
        return None
    deco = _decorators(fn)
    if deco - {"staticmethod", "classmethod"}:
        return None
    body = [s for s in fn.body if not _is_docstring(s)]
    if not body:
        return None
    ret = None
    if isinstance(body[-1], ast.Return):
        ret = body[-1].value
        body = body[:-1]
        if ret is None:
            ret = ast.Constant(value=None)
    for n in _own_nodes(ast.FunctionDef(name="_", args=a, body=body or [ast.Pass()], decorator_list=[], lineno=0)):
        if isinstance(n, (ast.Return, ast.Yield, ast.YieldFrom, ast.Await, ast.Global, ast.Nonlocal)):
            return None
    # nested defs inside the helper capture its locals: keep it simple
    for n in ast.walk(fn):
        if n is not fn and isinstance(n, (ast.FunctionDef, ast.AsyncFunctionDef, ast.ClassDef)):
            return None
        if isinstance(n, ast.Call) and isinstance(n.func, ast.Name) and n.func.id == fn.name and not method:
            return None  # recursive
        if isinstance(n, ast.Call) and isinstance(n.func, ast.Attribute) and n.func.attr == fn.name and method:
            return None
    return body, ret


def _bound_names(nodes):
    """names bound by assignment/for/with/except/walrus in the statements (comprehension variables have their own scope)"""
    out = set()

    def tgt(t):
        if isinstance(t, ast.Name):
            out.add(t.id)
        elif isinstance(t, (ast.Tuple, ast.List)):
            for e in t.elts:
                tgt(e)
        elif isinstance(t, ast.Starred):
            tgt(t.value)

    def go(n, in_comp):
        if isinstance(n, (ast.ListComp, ast.SetComp, ast.DictComp, ast.GeneratorExp)):
            for c in ast.iter_child_nodes(n):
                go(c, True)
            return
        if isinstance(n, (ast.FunctionDef, ast.AsyncFunctionDef, ast.ClassDef)):
            out.add(n.name)
            return
        if isinstance(n, ast.Lambda):
            return
        if isinstance(n, ast.Assign):
            for t in n.targets:
                tgt(t)
        elif isinstance(n, (ast.AugAssign, ast.AnnAssign)):
            tgt(n.target)
        elif isinstance(n, (ast.For, ast.AsyncFor)):
            tgt(n.target)
        elif isinstance(n, (ast.With, ast.AsyncWith)):
            for it in n.items:
                if it.optional_vars is not None:
                    tgt(it.optional_vars)
        elif isinstance(n, ast.ExceptHandler) and n.name:
            out.add(n.name)
        elif isinstance(n, ast.NamedExpr) and not in_comp:
            tgt(n.target)
        elif isinstance(n, (ast.Import, ast.ImportFrom)):
            for al in n.names:
                out.add((al.asname or al.name).split(".")[0])
        for c in ast.iter_child_nodes(n):
            go(c, in_comp)

    for s in nodes:
        go(s, False)
    return out


def _comp_names(nodes):
    out = set()
    for s in nodes:
        for n in ast.walk(s):
            if isinstance(n, ast.comprehension):
                for m in ast.walk(n.target):
                    if isinstance(m, ast.Name):
                        out.add(m.id)
    return out


def _all_names(nodes):
    out = set()
    for s in nodes:
        for n in ast.walk(s):
            if isinstance(n, ast.Name):
                out.add(n.id)
            elif isinstance(n, ast.arg):
                out.add(n.arg)
    return out


def _names_excluding(fn, skip):
    out = {a.arg for a in fn.args.args + fn.args.kwonlyargs}
    stack = list(fn.body)
    while stack:
        n = stack.pop()
        if n is skip:
            continue
        if isinstance(n, ast.Name):
            out.add(n.id)
        elif isinstance(n, ast.arg):
            out.add(n.arg)
        elif isinstance(n, (ast.FunctionDef, ast.ClassDef)):
            out.add(n.name)
        stack.extend(ast.iter_child_nodes(n))
    return out


def _simple(e):
    """an argument expression that may be substituted for a (never re-bound) parameter"""
    if isinstance(e, (ast.Name, ast.Constant)):
        return True
    if isinstance(e, ast.Attribute):
        return _simple(e.value)
    return False


class _Rename(ast.NodeTransformer):
    def __init__(self, names, exprs):
        self.names = names  # old -> new identifier
        self.exprs = exprs  # old -> expression (Load contexts only)

    def visit_Name(self, n):
        if n.id in self.exprs and isinstance(n.ctx, ast.Load):
            return ast.copy_location(_clone_expr(self.exprs[n.id]), n)
        if n.id in self.names:
            return ast.copy_location(ast.Name(id=self.names[n.id], ctx=n.ctx), n)
        return n

    def visit_ExceptHandler(self, n):
        if n.name in self.names:
            n.name = self.names[n.name]
        return self.generic_visit(n)


def _once_unconditional(stmt, call):
    """the call is evaluated exactly once, unconditionally, when `stmt` runs"""
    if isinstance(stmt, ast.While):
        return False
    if isinstance(stmt, (ast.For, ast.AsyncFor)):
        roots = [stmt.iter]
    elif isinstance(stmt, ast.If):
        roots = [stmt.test]
    elif isinstance(stmt, (ast.With, ast.AsyncWith)):
        roots = [it.context_expr for it in stmt.items[:1]]
    elif isinstance(stmt, (ast.Expr, ast.Return)):
        roots = [stmt.value] if stmt.value is not None else []
    elif isinstance(stmt, (ast.Assign, ast.AugAssign, ast.AnnAssign)):
        roots = [stmt.value] if stmt.value is not None else []
    else:
        return False

    def find(n):
        if n is call:
            return True
        if isinstance(n, (ast.Lambda, ast.ListComp, ast.SetComp, ast.DictComp, ast.GeneratorExp, ast.IfExp, ast.BoolOp)):
            # only the first operand / the first iterable is unconditional: keep it simple and refuse
            return False
        return any(find(c) for c in ast.iter_child_nodes(n))

    return any(find(r) for r in roots)


def _calls_in(stmt):
    """candidate Call nodes of one statement, not looking into its nested blocks"""
    if isinstance(stmt, (ast.For, ast.AsyncFor)):
        roots = [stmt.iter]
    elif isinstance(stmt, ast.If):
        roots = [stmt.test]
    elif isinstance(stmt, (ast.With, ast.AsyncWith)):
        roots = [it.context_expr for it in stmt.items[:1]]
    elif isinstance(stmt, (ast.Expr, ast.Return, ast.Assign, ast.AugAssign, ast.AnnAssign)):
        roots = [stmt.value] if getattr(stmt, "value", None) is not None else []
    else:
        roots = []
    out = []
    for r in roots:
        for n in ast.walk(r):
            if isinstance(n, ast.Call):
                out.append(n)
    return out


class _Inliner:
    def __init__(self, tree, only=None):
        self.tree = tree
        self.only = only
        self.count = 0
        self.log = []
        self.callees = set()

    # ---------------------------------------------------------------- driver
    def run(self):
        for node in self.tree.body:
            if isinstance(node, ast.ClassDef):
                methods = {s.name: s for s in node.body if isinstance(s, ast.FunctionDef)}
                for s in node.body:
                    if isinstance(s, ast.FunctionDef):
                        self.function(s, node.name, methods)
            elif isinstance(node, ast.FunctionDef):
                self.function(node, None, {})
        ast.fix_missing_locations(self.tree)
        return self.count

    def function(self, fn, clsname, methods, depth=0):
        for _ in range(3):  # helpers calling helpers
            nested = {}
            for n in _own_nodes(fn):
                if isinstance(n, ast.FunctionDef):
                    nested[n.name] = n
            # a name bound twice (re-defined helper) is not a stable callee
            changed = self.block(fn, fn.body, clsname, methods, nested)
            if not changed:
                break
        for n in _own_nodes(fn):
            if isinstance(n, ast.FunctionDef) and depth < 2:
                self.function(n, clsname, methods, depth + 1)

    def block(self, fn, body, clsname, methods, nested):
        changed = False
        i = 0
        while i < len(body):
            st = body[i]
            new = self.statement(fn, st, clsname, methods, nested)
            if new is not None:
                body[i:i + 1] = new
                changed = True
                i += len(new)
                continue
            for fld in ("body", "orelse", "finalbody"):
                sub = getattr(st, fld, None)
                if isinstance(sub, list) and sub and isinstance(sub[0], ast.stmt) and not isinstance(st, (ast.FunctionDef, ast.AsyncFunctionDef, ast.ClassDef)):
                    changed |= self.block(fn, sub, clsname, methods, nested)
            for h in getattr(st, "handlers", []) or []:
                changed |= self.block(fn, h.body, clsname, methods, nested)
            i += 1
        return changed

    # ---------------------------------------------------------------- one statement
    def callee_of(self, fn, call, clsname, methods, nested):
        f = call.func
        if isinstance(f, ast.Name) and f.id in nested and nested[f.id] is not fn:
            # the name must be bound exactly once in the caller (the def)
            return nested[f.id], False
        if isinstance(f, ast.Attribute) and isinstance(f.value, ast.Name) and f.attr in methods and f.attr.startswith("_") \
                and not f.attr.startswith("__") and methods[f.attr] is not fn:
            recv = f.value.id
            first = fn.args.args[0].arg if fn.args.args else None
            if recv in ("self", "cls", clsname) and (recv == clsname or recv == first):
                return methods[f.attr], True
        return None, False

    def statement(self, fn, st, clsname, methods, nested):
        for call in _calls_in(st):
            callee, is_method = self.callee_of(fn, call, clsname, methods, nested)
            if callee is None or (self.only is not None and callee.name not in self.only):
                continue
            el = _eligible(callee, is_method)
            if el is None:
                continue
            if not _once_unconditional(st, call):
                continue
            hbody, ret = el
            if not hbody:
                continue  # a one-expression helper names a value; the canonicaliser (walk.canon_ast) already sees through it
            if ret is None and not (isinstance(st, ast.Expr) and st.value is call):
                ret = ast.Constant(value=None)
            params = [a.arg for a in callee.args.args]
            deco = _decorators(callee)
            binding = {}
            if is_method and "staticmethod" not in deco:
                if not params:
                    continue
                binding[params[0]] = ast.Name(id=call.func.value.id, ctx=ast.Load())
                params = params[1:]
            if any(isinstance(a, ast.Starred) for a in call.args) or any(k.arg is None for k in call.keywords):
                continue
            if len(call.args) > len(params):
                continue
            for p, a in zip(params, call.args):
                binding[p] = a
            kwonly = [a.arg for a in callee.args.kwonlyargs]
            ok = True
            for k in call.keywords:
                if (k.arg not in params and k.arg not in kwonly) or k.arg in binding:
                    ok = False
                binding[k.arg] = k.value
            defaults = dict(zip(reversed([a.arg for a in callee.args.args]), reversed(callee.args.defaults)))
            for a, d in zip(callee.args.kwonlyargs, callee.args.kw_defaults):
                if d is not None:
                    defaults[a.arg] = d
            for p in params + kwonly:
                if p not in binding:
                    if p in defaults:
                        binding[p] = defaults[p]
                    else:
                        ok = False
            if not ok:
                continue

            hstmts = [_clone_stmt(s_) for s_ in hbody]
            hret = _clone_expr(ret) if ret is not None else None
            locals_ = _bound_names(hstmts)
            rebound_params = {p for p in binding if p in locals_}
            caller_names = _names_excluding(fn, None if is_method else callee)
            k = next(_counter)
            names, exprs, pre = {}, {}, []
            for p, a in binding.items():
                if isinstance(a, ast.Name) and a.id == p and p not in rebound_params:
                    continue
                if _simple(a) and p not in rebound_params:
                    exprs[p] = a
                else:
                    new = p if (p not in caller_names) else f"{p}__{k}"
                    names[p] = new
                    asg = ast.Assign(targets=[ast.Name(id=new, ctx=ast.Store())], value=_clone_expr(a), lineno=st.lineno,
                                     col_offset=st.col_offset)
                    pre.append(asg)
            direct_target = None
            if isinstance(st, ast.Assign) and st.value is call and len(st.targets) == 1 and isinstance(st.targets[0], ast.Name) \
                    and isinstance(hret, ast.Name) and hret.id in locals_ and hret.id not in binding:
                direct_target = st.targets[0].id
            for v in sorted(locals_ | _comp_names(hstmts + ([ast.Expr(value=hret)] if hret is not None else []))):
                if v in binding and v not in rebound_params:
                    continue
                if v in names:
                    continue
                if direct_target is not None and v == hret.id:
                    names[v] = direct_target
                elif v in caller_names:
                    names[v] = f"{v}__{k}"
            rn = _Rename(names, exprs)
            hstmts = [rn.visit(s) for s in hstmts]
            out = pre + hstmts
            if isinstance(st, ast.Expr) and st.value is call:
                pass  # the value is discarded
            elif direct_target is not None:
                pass  # the helper's result variable *is* the target now
            else:
                hret = rn.visit(hret)
                st2 = _replace(st, call, hret)
                out.append(st2)
            if not out:
                out = [ast.copy_location(ast.Pass(), st)]
            self.count += 1
            self.log.append(f"{fn.name}: inlined {callee.name} at line {st.lineno}")
            self.callees.add(callee.name)
            return out
        return None


def _replace(st, call, expr):
    class R(ast.NodeTransformer):
        def visit_Call(self, n):
            if n is call:
                return ast.copy_location(expr, n)
            return self.generic_visit(n)

    # only the statement's own expressions are rewritten; nested blocks are kept by reference
    for fld in ("value", "iter", "test"):
        v = getattr(st, fld, None)
        if isinstance(v, ast.AST):
            setattr(st, fld, R().visit(v))
    if isinstance(st, (ast.With, ast.AsyncWith)):
        st.items[0].context_expr = R().visit(st.items[0].context_expr)
    return st


def inline_module(tree, only=None):
    """in-place; returns the list of inlinings performed.  `only`: restrict to callees with these names"""
    inl = _Inliner(tree, only)
    inl.run()
    return inl.log


def callee_of_log(line):
    return line.split(": inlined ", 1)[1].split(" at line")[0]


# ====================================================================== temporaries
#
# `one = self.R.one`, `zero = self.R.zero`, `head, body = r.head, r.body`, `w = s.w * r.w`, `p = 1 / K`, `Y = Ys[0]`: maintainers
# introduce and remove such single-assignment locals all the time.  A rule that compares slots as text sees different text.
# `inline_temporaries` substitutes every *read* of such a local by its defining expression, on a copy of the tree, when that
# is semantics-preserving:
#   * the name is bound exactly once in its function (plain `t = v` or one position of a tuple = tuple assignment), is not a
#     parameter, loop/with/except/comprehension target, global/nonlocal, and is not augmented;
#   * v is a formula (walk._inlinable: attribute/subscript chains, arithmetic, comparisons, tuples, value builtins, local
#     one-expression helpers) - never the result of a method call or a freshly allocated container (those denote objects);
#   * v is stable: no name occurring in v is re-bound anywhere in the function except before the definition in straight-line
#     order at function level, no attribute / subscript text occurring in v is stored to anywhere in the function, and none of
#     the containers subscripted in v is mutated by a method call (`x.add/append/update/...`) in the function;
#   * every read comes after the definition in the same function (reads inside nested functions are left alone).
# The assignment statement itself stays (dead), so statement-shaped rules still see it.


_MUTATORS = {"add", "append", "extend", "update", "pop", "remove", "clear", "insert", "discard", "setdefault", "popitem", "sort", "reverse",
             "add_arc", "add_I", "add_F", "set_arc", "set_I", "set_F"}


def _stmt_list_of(st):
    p = getattr(st, "_parent", None)
    for fld in ("body", "orelse", "finalbody"):
        lst = getattr(p, fld, None)
        if isinstance(lst, list) and any(x is st for x in lst):
            return lst
    for h in getattr(p, "handlers", []) or []:
        if any(x is st for x in h.body):
            return h.body
    return None


def _bindings(fn):
    """name -> list of (stmt, value) for plain single-target assignments; names bound in any other way map to None"""
    from . import walk as W

    out = {}
    bad = set()
    a = fn.args
    for x in a.posonlyargs + a.args + a.kwonlyargs:
        bad.add(x.arg)
    for x in (a.vararg, a.kwarg):
        if x is not None:
            bad.add(x.arg)
    for n in ast.walk(fn):
        if isinstance(n, (ast.Nonlocal, ast.Global)):
            bad.update(n.names)
    plain_targets = set()
    for n in W.own_nodes(fn):
        if isinstance(n, ast.Assign) and len(n.targets) == 1:
            t = n.targets[0]
            if isinstance(t, ast.Name):
                out.setdefault(t.id, []).append((n, n.value))
                plain_targets.add(id(t))
            elif isinstance(t, (ast.Tuple, ast.List)) and isinstance(n.value, (ast.Tuple, ast.List)) and len(t.elts) == len(n.value.elts) \
                    and all(isinstance(e, ast.Name) for e in t.elts) and not any(isinstance(e, ast.Starred) for e in n.value.elts):
                tn = {e.id for e in t.elts}
                if not any(isinstance(x, ast.Name) and x.id in tn for v in n.value.elts for x in ast.walk(v)):
                    for te, ve in zip(t.elts, n.value.elts):
                        out.setdefault(te.id, []).append((n, ve))
                        plain_targets.add(id(te))
    for n in W.own_nodes(fn):
        if isinstance(n, ast.Name) and isinstance(n.ctx, (ast.Store, ast.Del)) and id(n) not in plain_targets:
            bad.add(n.id)
        if isinstance(n, (ast.FunctionDef, ast.AsyncFunctionDef, ast.ClassDef)) and n is not fn:
            bad.add(n.name)
    for nm in bad:
        out[nm] = None
    out["self"] = None
    return out


VOLATILE_ATTRS = set()  # names of plain @property members of the package (set by Program.inlined_views): every read re-runs them


def _stable_formula(fn, st, v, ctx):
    """is `v` (defined at statement st) a formula whose value cannot change while the function runs?  ctx: precomputed store/mutation sets"""
    from . import walk as W

    own, stored_text, mutated = ctx
    if not W._inlinable(fn, v):
        return False
    # a name shared with other activations (nonlocal / global: a counter bumped by a recursive call) is not a formula
    shared = set()
    top = fn
    while getattr(top, "_parent", None) is not None and not isinstance(top, ast.Module):
        top = top._parent
        if isinstance(top, (ast.FunctionDef, ast.AsyncFunctionDef)):
            break
    for scope in (fn, top):
        for n in ast.walk(scope):
            if isinstance(n, (ast.Nonlocal, ast.Global)):
                shared.update(n.names)
    if any(isinstance(x, ast.Name) and x.id in shared for x in ast.walk(v)):
        return False
    # `other.I` is a property that builds a new generator on every read: binding it once and reading it twice are different programs
    if any(isinstance(x, ast.Attribute) and x.attr in VOLATILE_ATTRS for x in ast.walk(v)):
        return False
    if isinstance(v, ast.Call):
        # value builtins over stable, unmutated operands only (len(x), abs(x), ...)
        if not (isinstance(v.func, ast.Name) and v.func.id in ("len", "abs", "min", "max", "bool", "int", "float", "str", "tuple", "frozenset") and not v.keywords):
            return False
        for a_ in v.args:
            if not isinstance(a_, (ast.Name, ast.Attribute, ast.Constant)):
                return False
            if ast.unparse(a_) in mutated | stored_text:
                return False
    for x in ast.walk(v):
        if isinstance(x, (ast.Attribute, ast.Subscript)) and ast.unparse(x) in stored_text:
            return False
        if isinstance(x, ast.Subscript) and ast.unparse(x.value) in mutated | stored_text:
            return False
        if isinstance(x, (ast.Lambda, ast.GeneratorExp, ast.ListComp, ast.SetComp, ast.DictComp, ast.Await, ast.Yield, ast.YieldFrom, ast.NamedExpr, ast.Starred)):
            return False
        if isinstance(x, ast.Call) and x is not v:
            return False
        if isinstance(x, ast.Subscript):
            # an element read is stable only if nothing called after the definition can reach the container
            root = x.value
            while isinstance(root, (ast.Attribute, ast.Subscript)):
                root = root.value
            roots = {root.id} if isinstance(root, ast.Name) else set()
            for _ in range(3):
                for b in own:
                    if isinstance(b, ast.Assign) and len(b.targets) == 1 and isinstance(b.targets[0], ast.Name) and b.targets[0].id in roots:
                        r0 = b.value
                        while isinstance(r0, (ast.Attribute, ast.Subscript)):
                            r0 = r0.value
                        if isinstance(r0, ast.Name):
                            roots.add(r0.id)
            for c in own:
                if isinstance(c, ast.Call) and W.pos(c) > W.pos(st):
                    argroots = set()
                    for a_ in list(c.args) + [k.value for k in c.keywords]:
                        for r1 in ast.walk(a_):
                            if isinstance(r1, ast.Name) and isinstance(r1.ctx, ast.Load):
                                par = getattr(r1, "_parent", None)
                                top = r1
                                while isinstance(par, ast.Attribute) and par.value is top:
                                    top, par = par, getattr(par, "_parent", None)
                                if isinstance(par, ast.Subscript) and par.value is top:
                                    continue
                                argroots.add(r1.id)
                    if isinstance(c.func, ast.Attribute) and c.func.attr not in ("get", "items", "keys", "values", "copy", "index", "count"):
                        r1 = c.func.value
                        while isinstance(r1, (ast.Attribute, ast.Subscript)):
                            r1 = r1.value
                        if isinstance(r1, ast.Name) and r1.id != "self":
                            argroots.add(r1.id)
                        if isinstance(r1, ast.Name) and r1.id == "self" and "self" in roots and c.func.attr not in ("is_terminal", "is_nonterminal"):
                            argroots.add("self")
                    if roots & argroots:
                        return False
    return True


def inline_temporaries(tree):
    """in-place; returns a log of the substitutions performed"""
    from .model import set_parents
    from . import walk as W

    set_parents(tree)
    log = []
    funcs = [n for n in ast.walk(tree) if isinstance(n, (ast.FunctionDef, ast.AsyncFunctionDef))]
    for fn in funcs:
        for _round in range(3):  # temporaries defined from temporaries
            binds = _bindings(fn)
            if not any(v for v in binds.values()):
                break
            own = list(W.own_nodes(fn))
            stored_text, mutated = set(), set()
            for n in ast.walk(fn):
                if isinstance(n, (ast.Attribute, ast.Subscript)) and isinstance(n.ctx, (ast.Store, ast.Del)):
                    stored_text.add(ast.unparse(n))
                    stored_text.add(ast.unparse(n.value))
                if isinstance(n, ast.AugAssign) and isinstance(n.target, (ast.Attribute, ast.Subscript)):
                    stored_text.add(ast.unparse(n.target))
                    stored_text.add(ast.unparse(n.target.value))
                if isinstance(n, ast.Call) and isinstance(n.func, ast.Attribute) and n.func.attr in _MUTATORS:
                    mutated.add(ast.unparse(n.func.value))
            ctx = (own, stored_text, mutated)
            stable = {}
            changed = 0
            names = set()

            def pick(node):
                bs = binds.get(node.id)
                if not bs:
                    return None
                cands = []
                for st, v in bs:
                    if not (W.end_pos(st) < W.pos(node)):
                        continue
                    lst = _stmt_list_of(st)
                    if lst is None:
                        continue
                    # structural dominance: an ancestor-or-self statement of the read sits in the same statement list, after st
                    x = node
                    dom = False
                    while x is not None and x is not fn:
                        if any(y is x for y in lst):
                            dom = True
                            break
                        x = getattr(x, "_parent", None)
                    if dom:
                        cands.append((st, v))
                if not cands:
                    return None
                st, v = max(cands, key=lambda sv: W.pos(sv[0]))
                # no other binding of the name between st and the read; none inside a loop that encloses the read but not st
                for st2, _ in bs:
                    if st2 is not st and W.pos(st) < W.pos(st2) < W.pos(node):
                        return None
                dl = W.enclosing_loops(st)
                rl = W.enclosing_loops(node)
                if not all(any(a is b for b in rl) for a in dl):
                    return None
                extra = [a for a in rl if not any(a is b for b in dl)]
                for st2, _ in bs:
                    if st2 is not st and any(W._within(st2, a) for a in extra):
                        return None
                key = id(st), node.id
                if key not in stable:
                    stable[key] = _stable_formula(fn, st, v, ctx)
                if not stable[key]:
                    return None
                vn = {x.id for x in ast.walk(v) if isinstance(x, ast.Name)}
                if node.id in vn:
                    return None
                between = any(isinstance(b, ast.Name) and b.id in vn and isinstance(b.ctx, (ast.Store, ast.Del))
                              and W.end_pos(st) < W.pos(b) < W.pos(node) for b in own)
                inloop = any(isinstance(b, ast.Name) and b.id in vn and isinstance(b.ctx, (ast.Store, ast.Del)) for a in extra for b in ast.walk(a))
                if between or inloop:
                    return None
                return v

            class T(ast.NodeTransformer):
                def visit_FunctionDef(self, node):
                    if node is fn:
                        return self.generic_visit(node)
                    return node  # reads inside nested functions are left alone

                visit_AsyncFunctionDef = visit_FunctionDef

                def visit_Lambda(self, node):
                    return node

                def visit_Name(self, node):
                    nonlocal changed
                    if isinstance(node.ctx, ast.Load):
                        v = pick(node)
                        if v is not None:
                            changed += 1
                            names.add(node.id)
                            new = ast.parse(ast.unparse(v), mode="eval").body  # a fresh copy without parent links
                            return ast.copy_location(new, node)
                    return node

            T().visit(fn)
            if not changed:
                break
            log.append(f"{fn.name}: {changed} read(s) of {sorted(names)[:8]} replaced by their definitions")
            ast.fix_missing_locations(fn)
            set_parents(tree)
    return log


def inline_both(tree, only=None):
    log = inline_module(tree, only)
    log2 = inline_temporaries(tree)
    return log + log2
