"""Seeded-variant self-test of the checkers (thorough tier).

Each variant is a small textual edit of one file of the package, applied to a scratch copy of
/repo/genlm/grammar in a temporary directory (outside /repo and /verif, removed immediately).
Nothing is executed: the variant must still parse, the rules are run on the scratch copy.
  * a breaking variant must make the named rule report a NEW violation (w.r.t. the unedited tree) in that file;
  * a benign twin (expect=None) must leave the set of violations unchanged.
A variant whose anchor text is no longer in the tree is *stale* and skipped.  A failing self-test is an
ANALYSIS-ERROR (the checker is broken), never a VIOLATION of the property.
"""

from __future__ import annotations

import os
import shutil
import tempfile
import multiprocessing as mp

from .model import Program, AnalysisError, PKG_REL, repo_root


def _violations(prop, root):
    from . import props

    from . import report

    P = Program(root)
    out = set()
    spec = props.PROPS[prop]
    for rr in report.run_rules(P, spec["rules"]):
        for o in rr.obs:
            if not o.ok:
                out.add((o.rule if not o.undecided else "UNDECIDED:" + o.rule, o.file, o.function, o.construct))
    return out


def _apply(root, v):
    path = os.path.join(root, PKG_REL, v["file"])
    with open(path, encoding="utf-8") as f:
        src = f.read()
    edits = v["edits"] if "edits" in v else [(v["old"], v["new"])]
    for old, new in edits:
        if src.count(old) != 1:
            return False
        src = src.replace(old, new)
    try:
        import warnings

        with warnings.catch_warnings():
            warnings.simplefilter("ignore")
            compile(src, path, "exec")
    except SyntaxError as e:
        raise AnalysisError(f"self-test variant {v['id']} does not compile: {e}")
    with open(path, "w", encoding="utf-8") as f:
        f.write(src)
    return True


def _run_variant(args):
    prop, v, base = args
    tmp = tempfile.mkdtemp(prefix="sa-selftest-")
    try:
        dst = os.path.join(tmp, PKG_REL)
        shutil.copytree(os.path.join(repo_root(), PKG_REL), dst, ignore=shutil.ignore_patterns("__pycache__"))
        if not _apply(tmp, v):
            return (v["id"], "stale", "")
        try:
            got = _violations(prop, tmp)
        except AnalysisError as e:
            if v.get("expect") == "ANALYSIS-ERROR":
                return (v["id"], "ok", "fails closed")
            return (v["id"], "error", f"analysis error on variant: {e}")
        new = got - base
        if v.get("expect") == "ANALYSIS-ERROR":
            und = [x for x in new if x[0].startswith("UNDECIDED:")]
            return (v["id"], "ok", "fails closed") if und and len(und) == len(new) else (v["id"], "missed", f"expected an undecided outcome; new: {sorted(new)[:3]}")
        if v.get("expect") is None:
            if new:
                return (v["id"], "false-alarm", f"benign twin raised {sorted(new)[:2]}")
            return (v["id"], "ok", "silent")
        ef = v.get("expect_file", v["file"])
        hit = [x for x in new if x[0] == v["expect"] and (ef == "*" or ef == x[1])]
        if not hit:
            return (v["id"], "missed", f"expected {v['expect']} in {v['file']}; new violations: {sorted(new)[:3]}")
        return (v["id"], "ok", f"{hit[0][0]} @ {hit[0][1]}::{hit[0][2]}")
    finally:
        shutil.rmtree(tmp, ignore_errors=True)


def run(prop, quiet=False, jobs=None):
    from .variants import VARIANTS

    vs = [v for v in VARIANTS if prop in v["props"]]
    if not vs:
        return {"variants": 0}
    try:
        base = _violations(prop, repo_root())
    except AnalysisError:
        raise
    jobs = jobs or min(16, max(1, len(vs)))
    with mp.get_context("fork").Pool(jobs) as pool:
        res = pool.map(_run_variant, [(prop, v, base) for v in vs])
    summary = {"variants": len(vs), "ok": 0, "stale": 0, "failed": []}
    for vid, status, detail in res:
        if status == "ok":
            summary["ok"] += 1
        elif status == "stale":
            summary["stale"] += 1
            summary.setdefault("stale_ids", []).append(vid)
        else:
            summary["failed"].append(f"{vid}: {status}: {detail}")
        if not quiet:
            print(f"[{prop}] self-test {vid}: {status} {detail}")
    summary["breaking"] = sum(1 for v in vs if v.get("expect"))
    summary["benign"] = sum(1 for v in vs if not v.get("expect"))
    if summary["failed"]:
        raise AnalysisError("checker self-test failed: " + "; ".join(summary["failed"][:5]))
    return summary
