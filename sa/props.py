"""Property -> rule instances.  See DESIGN.md §3/§4 for the clauses each rule decides."""

from __future__ import annotations

from .rules import agenda, effects

A_COMMON = [
    "A1: the analysed program is /repo/genlm/grammar/**/*.py as parsed by CPython's ast; third-party behaviour "
    "(arsenal Integerizer/LocatorMaxHeap, numpy dtype inference, defaultdict vivification, frozendict) is summarised "
    "in small frozen tables",
    "A2: rule-instance tables are discovered from the code, confirmed by reading, and the run fails closed "
    "(ANALYSIS-ERROR, exit 2) when the tree no longer matches them",
    "A5: no setattr/exec/__getattr__ tricks in the package (checked on every run)",
    "the rules decide necessary structural clauses only; passing them does not establish the behavioural property",
]

PROPS = {}


def prop(pid, explanation, rules, thorough_rules=(), assumptions=()):
    PROPS[pid] = dict(explanation=explanation, rules=list(rules), thorough_rules=list(thorough_rules),
                      assumptions=list(assumptions) + A_COMMON)


prop(
    "C02",
    "Decides structural clauses of C02 for every grammar/string/schedule at once: the Earley agenda key is an "
    "injective mixed-radix code (RADIX) that pops dependencies first (DEP-ORDER) on a grammar preprocessed in the "
    "required order (PIPE-EARLEYPREP), so no two agenda entries tie and the tie-break quantifier is vacuous; chart "
    "cells accumulate sums (ACCUM). Does NOT decide that the parsers compute the derivation sum.",
    [agenda.rule_radix, (agenda.rule_dep_order, dict(which=("earley",))), agenda.rule_earley_prep, agenda.rule_accum],
)


prop(
    "C05",
    "Decides the effect clauses of C05 for every query history at once: no query/transformation writes state that "
    "another query reads, except memo stores keyed by the whole argument (EFFECT, EFF-VIVIFY, MEMO-KEY, "
    "REC-CACHEFILL, GLOBAL-STATE). If the only writes reachable from a query are to objects it allocated and to "
    "memos keyed by the whole argument whose value is computed from (object, key), every query returns what a "
    "fresh object returns, by induction on the history. Does NOT decide staleness of cached_property values when a "
    "user calls the construction API after querying.",
    [effects.rule_effects, effects.rule_vivify, effects.rule_memo_key, effects.rule_rec_cachefill,
     effects.rule_global_state],
)
