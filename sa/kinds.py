"""Weight-kind inference (flow-insensitive, per function, closures inherit).

Kinds:  W  semiring weight      S  symbol / state / label      N  plain number
        C  chart of weights (subscript -> W)      G  weighted graph (subscript -> W)
        B  sequence of symbols (rule body)        R  rule object       ?  unknown
Seeds are repository-specific shapes confirmed by reading (A2); everything else is '?'.
"""

from __future__ import annotations

import ast

from .model import norm, walk_live
from . import walk as W_

W, S, N, C, G, B, R, U = "W", "S", "N", "C", "G", "B", "R", "?"

SEMIRING_CLASSES = {"Boolean", "Float", "Real", "Log", "MaxPlus", "MaxTimes", "Entropy", "Expectation", "Semiring"}
CHART_RETURNING = {"chart", "agenda", "null_weight", "solve_left", "solve_right", "closure_scc_based", "closure_reference",
                   "naive_bottom_up", "_bottom_up_step", "_parse_chart", "language", "next_token_weights", "p_next",
                   "trim_chart", "_closure", "normalize", "materialize"}
CHART_ATTRS = {"start", "stop", "backward", "forward", "E", "K"}
GRAPH_RETURNING = {"_unary_graph", "_unary_graph_transpose", "closure", "dependency_graph"}
WEIGHT_METHODS = {"star", "weight", "product", "treesum", "total_weight", "null_weight_start", "prefix_weight"}
# (function name) -> index of the weight parameter (after self)
WEIGHT_PARAM = {"add": 0, "add_arc": 3, "set_arc": 3, "add_I": 1, "add_F": 1, "set_I": 1, "set_F": 1, "lift": 1,
                "Rule": 0}
SYMBOL_SETS = {"V", "N", "states", "alphabet", "A", "B"}


def is_semiring_ref(e):
    """`self.R`, `cfg.R`, `R`, `self.WeightType`, `self.semiring`, `Float`, ..."""
    if isinstance(e, ast.Name):
        return e.id in SEMIRING_CLASSES or e.id in ("R", "semiring", "WeightType")
    if isinstance(e, ast.Attribute):
        return e.attr in ("R", "semiring", "WeightType")
    return False


class Kinds:
    def __init__(self, P, f, outer_env=None):
        self.P = P
        self.f = f
        self.env = dict(outer_env or {})
        self._seed_params()
        for _ in range(4):
            before = dict(self.env)
            self._pass()
            if before == self.env:
                break

    # ------------------------------------------------------------ seeds
    def _seed_params(self):
        f = self.f
        ps = f.params
        name = f.name
        if name in WEIGHT_PARAM and f.cls is not None:
            idx = WEIGHT_PARAM[name] + 1
            if name == "lift":
                idx = 2
            if idx < len(ps):
                self.env[ps[idx]] = W
        if name == "from_string" and f.cls is not None and "w" in ps:
            self.env["w"] = W
        if name == "__init__" and f.cls is not None and f.cls.name == "Rule" and len(ps) > 1:
            self.env[ps[1]] = W
        if name == "update" and f.outer is not None and f.outer.name == "agenda" and len(ps) == 2:
            self.env[ps[1]] = W
            self.env[ps[0]] = S
        if name == "_update" and f.cls is not None and f.cls.name == "Earley":
            self.env[ps[-1]] = W
        for p in ps:
            if p in ("null_weight",):
                self.env[p] = C
        # binary operator methods of semiring classes: operands are weights
        if f.cls is not None and any(c.name in SEMIRING_CLASSES for c in f.cls.mro()) and name in ("__add__", "__mul__"):
            pass

    def bind(self, name, k):
        if k == U:
            return
        old = self.env.get(name)
        if old is None or old == U:
            self.env[name] = k
        elif old != k:
            # conflicting evidence: keep weight-ish kinds (conservative for GEN rules), else unknown
            if W in (old, k) and N in (old, k):
                self.env[name] = W
            elif old != k:
                self.env[name] = old

    def _bind_target(self, tgt, k):
        if isinstance(tgt, ast.Name):
            self.bind(tgt.id, k)

    def _bind_tuple(self, tgt, kinds):
        elts = tgt.elts if isinstance(tgt, (ast.Tuple, ast.List)) else None
        if elts is None or len(elts) != len(kinds):
            return
        for t, k in zip(elts, kinds):
            if isinstance(t, (ast.Tuple, ast.List)):
                for s in t.elts:
                    self._bind_target(s, S)
            else:
                self._bind_target(t, k)

    def _bind_iter(self, tgt, it):
        """loop / comprehension target bound from an iterable"""
        # arcs(...)
        if isinstance(it, ast.Call) and isinstance(it.func, ast.Attribute):
            nm = it.func.attr
            if nm == "arcs":
                n = len(tgt.elts) if isinstance(tgt, (ast.Tuple, ast.List)) else 0
                if n >= 2:
                    self._bind_tuple(tgt, [S] * (n - 1) + [W])
                return
            if nm == "items":
                base = it.func.value
                bk = self.kind(base)
                if bk == C and isinstance(tgt, (ast.Tuple, ast.List)) and len(tgt.elts) == 2:
                    self._bind_tuple(tgt, [S, W])
                elif isinstance(tgt, (ast.Tuple, ast.List)) and len(tgt.elts) == 2:
                    # dict of charts: U[a] -> chart
                    vk = self.elem_kind(base)
                    self._bind_tuple(tgt, [S, vk])
                return
            if nm == "values":
                bk = self.kind(it.func.value)
                if bk == C:
                    self._bind_target(tgt, W)
                return
            if nm in ("enumerate",):
                return
        if isinstance(it, ast.Call) and isinstance(it.func, ast.Name) and it.func.id == "enumerate" and it.args:
            if isinstance(tgt, (ast.Tuple, ast.List)) and len(tgt.elts) == 2:
                self._bind_target(tgt.elts[0], N)
                self._bind_iter(tgt.elts[1], it.args[0])
            return
        if isinstance(it, ast.Attribute):
            if it.attr in ("I", "F") and isinstance(tgt, (ast.Tuple, ast.List)) and len(tgt.elts) == 2:
                self._bind_tuple(tgt, [S, W])
                return
            if it.attr in SYMBOL_SETS or it.attr == "body":
                self._bind_target(tgt, S)
                return
            if it.attr == "rules":
                self._bind_target(tgt, R)
                return
        k = self.kind(it)
        if k == B:
            self._bind_target(tgt, S)
        elif k == C:
            self._bind_target(tgt, S)
        elif k == G and isinstance(tgt, (ast.Tuple, ast.List)):
            for t in tgt.elts:
                self._bind_target(t, S)
        elif isinstance(it, ast.Name) and it.id in ("self", "cfg", "G"):
            # iterating a grammar yields rules
            if self.env.get(it.id) not in (C, B, G):
                self._bind_target(tgt, R)
        elif isinstance(it, ast.Call) and isinstance(it.func, ast.Attribute) and it.func.attr == "chain":
            self._bind_target(tgt, R)

    # ------------------------------------------------------------ one pass
    def _pass(self):
        for n in walk_live(self.f.node):
            if isinstance(n, ast.Assign):
                k = self.kind(n.value)
                for t in n.targets:
                    if isinstance(t, ast.Name):
                        self.bind(t.id, k)
                    elif isinstance(t, (ast.Tuple, ast.List)) and isinstance(n.value, (ast.Tuple, ast.List)) \
                            and len(t.elts) == len(n.value.elts):
                        for a, b in zip(t.elts, n.value.elts):
                            if isinstance(a, ast.Name):
                                self.bind(a.id, self.kind(b))
                    elif isinstance(t, (ast.Tuple, ast.List)):
                        # (I, X, Ys) = item ;  X, [Y, Z] = r.head, r.body
                        pass
            elif isinstance(n, ast.AugAssign) and isinstance(n.target, ast.Name):
                k = self.kind(n.value)
                if k == W:
                    self.bind(n.target.id, W)
            elif isinstance(n, (ast.For, ast.AsyncFor)):
                self._bind_iter(n.target, n.iter)
            elif isinstance(n, ast.comprehension):
                self._bind_iter(n.target, n.iter)

    # ------------------------------------------------------------ expression kinds
    def elem_kind(self, e):
        """kind of the values of a dict-like expression"""
        if isinstance(e, ast.Name):
            d = W_.single_def(self.f.node, e.id)
            if isinstance(d, ast.DictComp):
                return self.kind(d.value)
            if isinstance(d, ast.Call) and W_.call_name(d) == "defaultdict" and d.args:
                a = d.args[0]
                if isinstance(a, ast.Attribute) and a.attr == "chart":
                    return C
        return U

    def kind(self, e):
        if e is None:
            return U
        if isinstance(e, ast.Name):
            if e.id in ("EPSILON", "ε", "ε_1", "ε_2", "EOS"):
                return S
            return self.env.get(e.id, U)
        if isinstance(e, ast.Constant):
            if isinstance(e.value, bool) or e.value is None:
                return U
            if isinstance(e.value, (int, float)):
                return N
            if isinstance(e.value, str):
                return S if e.value == "" else U
            return U
        if isinstance(e, ast.Attribute):
            if e.attr == "w":
                return W
            if e.attr in ("zero", "one") and is_semiring_ref(e.value):
                return W
            if e.attr in ("head",):
                return S
            if e.attr == "body":
                return B
            if e.attr in CHART_ATTRS and not is_semiring_ref(e):
                if e.attr in ("E", "K") and not (isinstance(e.value, ast.Name) and e.value.id == "self"):
                    return U
                return C
            if e.attr in ("S",):
                return S
            if e.attr in ("rescale",):
                return W
            return U
        if isinstance(e, ast.Subscript):
            bk = self.kind(e.value)
            if bk in (C, G):
                return W
            if bk == B:
                return B if isinstance(e.slice, ast.Slice) else S
            if bk == S and isinstance(e.slice, ast.Constant) and e.slice.value in (0, 1):
                return S  # component of an (input, output) label pair
            # delta[i][a][j]
            if isinstance(e.value, ast.Subscript):
                inner = self.elem_kind(e.value.value)
                if inner == C:
                    return W
            ek = self.elem_kind(e.value)
            if ek != U and not isinstance(e.slice, ast.Slice):
                return ek
            if norm(e).count("delta[") and norm(e).count("]") >= 3:
                return W
            return U
        if isinstance(e, ast.Call):
            nm = W_.call_name(e)
            f = e.func
            if isinstance(f, ast.Attribute):
                if nm == "chart" and (is_semiring_ref(f.value)):
                    return C
                if nm in WEIGHT_METHODS:
                    return W
                if nm in CHART_RETURNING:
                    return C
                if nm in GRAPH_RETURNING:
                    return G
                if nm == "get":
                    bk = self.kind(f.value)
                    if bk in (C, G):
                        return W
                    if isinstance(f.value, ast.Attribute) and f.value.attr in ("c_chart", "i_chart"):
                        return W
                    return U
                if nm == "from_string" and is_semiring_ref(f.value):
                    return W
                if nm in ("copy", "trim", "filter", "project", "spawn") and self.kind(f.value) == C:
                    return C
            if isinstance(f, ast.Name):
                if f.id in SEMIRING_CLASSES and f.id != "Float":
                    return W
                if f.id in ("len", "range", "int", "float", "abs", "max", "min", "round", "ord"):
                    # numbers, unless they wrap a weight (abs(w), max over weights) -- reported by FIELDOP instead
                    return N
                if f.id == "sum":
                    return W if e.args and self._gen_elem_kind(e.args[0]) == W else N
                if f.id == "Chart":
                    return C
                if f.id == "WeightedGraph":
                    return G
                if f.id in ("tuple", "list") and e.args and self.kind(e.args[0]) == B:
                    return B
            return U
        if isinstance(e, ast.BinOp):
            l, r = self.kind(e.left), self.kind(e.right)
            if isinstance(e.op, (ast.Add, ast.Mult, ast.Div, ast.Sub, ast.Pow)):
                if W in (l, r):
                    return W
                if l == N and r == N:
                    return N
                if B in (l, r) and isinstance(e.op, ast.Add):
                    return B
            return U
        if isinstance(e, ast.UnaryOp):
            if isinstance(e.op, ast.USub):
                return self.kind(e.operand)
            return U
        if isinstance(e, ast.IfExp):
            a, b = self.kind(e.body), self.kind(e.orelse)
            return a if a == b else (W if W in (a, b) else U)
        if isinstance(e, ast.NamedExpr):
            return self.kind(e.value)
        if isinstance(e, ast.Starred):
            return self.kind(e.value)
        if isinstance(e, ast.Tuple):
            return U
        return U

    def _gen_elem_kind(self, e):
        if isinstance(e, (ast.GeneratorExp, ast.ListComp, ast.SetComp)):
            for g in e.generators:
                self._bind_iter(g.target, g.iter)
            return self.kind(e.elt)
        if isinstance(e, ast.Call) and isinstance(e.func, ast.Attribute) and e.func.attr == "values":
            return W if self.kind(e.func.value) == C else U
        return U


def kinds_for(P, f, _memo={}):
    key = (id(P), f.qual)
    if key not in _memo:
        outer = kinds_for(P, f.outer).env if f.outer is not None else None
        _memo[key] = Kinds(P, f, outer)
    return _memo[key]
