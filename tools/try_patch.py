#!/venv/bin/python
"""Developer tool: apply a patch to a scratch copy of /repo's package and report which rules fire.
usage: try_patch.py <patch.diff> [Cxx ...]   (default: all claimed properties)"""
import os, sys, shutil, subprocess, tempfile
sys.path.insert(0, os.path.dirname(os.path.dirname(os.path.abspath(__file__))))
from sa.model import Program, AnalysisError, PKG_REL, repo_root
from sa import props

def viol(root, pids):
    from sa import report
    out = {}
    P0 = Program(root)
    for pid in pids:
        s = set()
        for rr in report.run_rules(P0, props.PROPS[pid]["rules"]):
            for o in rr.obs:
                if not o.ok:
                    s.add((o.rule if not o.undecided else 'UNDECIDED:' + o.rule, o.file, o.function, o.construct))
        out[pid] = s
    return out

def main():
    patch = sys.argv[1]
    pids = sys.argv[2:] or sorted(props.PROPS)
    base = viol(repo_root(), pids)
    tmp = tempfile.mkdtemp(prefix="sa-try-")
    try:
        shutil.copytree(os.path.join(repo_root(), "genlm"), os.path.join(tmp, "genlm"), ignore=shutil.ignore_patterns("__pycache__"))
        r = subprocess.run(["patch", "-p1", "-s", "-d", tmp, "-i", os.path.abspath(patch)], capture_output=True, text=True)
        if r.returncode != 0:
            print("PATCH-FAILED", r.stdout[-300:], r.stderr[-300:]); return 3
        got = viol(tmp, pids)
        any_new = False
        for pid in pids:
            new = got[pid] - base[pid]
            for x in sorted(new):
                any_new = True
                print(f"  {pid}: {x[0]} {x[1]}::{x[2]} :: {x[3][:110]}")
        print("DETECTED" if any_new else "MISSED")
        return 0
    finally:
        shutil.rmtree(tmp, ignore_errors=True)
sys.exit(main())
