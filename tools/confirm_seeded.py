#!/venv/bin/python
"""Confirm an agent-produced mutation in a scratch worktree of /repo's HEAD and file it under /verif/seeded/<id>/.
usage: confirm_seeded.py <src dir with patch.diff demo.py meta.json> <seeded id>"""
import json, os, shutil, subprocess, sys, tempfile

src, sid = sys.argv[1], sys.argv[2]
V = os.path.dirname(os.path.dirname(os.path.abspath(__file__)))
wt = tempfile.mkdtemp(prefix="seedwt-", dir="/tmp")
os.rmdir(wt)
def sh(cmd, cwd=None, env=None, timeout=1800):
    p = subprocess.run(cmd, shell=True, cwd=cwd, capture_output=True, text=True, env=env, timeout=timeout)
    return p.returncode, (p.stdout + p.stderr)
rc, out = sh(f"git -C /repo worktree add -q {wt} HEAD")
assert rc == 0, out
res = {"applies": False}
try:
    env = dict(os.environ, PYTHONPATH=wt)
    rc, out = sh(f"git apply {src}/patch.diff", cwd=wt)
    if rc != 0:
        rc, out = sh(f"patch -p1 -s -i {src}/patch.diff", cwd=wt)
    res["applies"] = rc == 0
    if rc == 0:
        rc, out = sh("/venv/bin/python -m pytest -q -p no:cacheprovider --timeout=900 -n 6 2>&1 | tail -1", cwd=wt, env=env)
        res["tests_with_patch"] = out.strip().splitlines()[-1] if out.strip() else ""
        rc, out = sh(f"/venv/bin/python {src}/demo.py", cwd=wt, env=env, timeout=900)
        res["demo_patched_rc"] = rc
        res["demo_patched_tail"] = out.strip().splitlines()[-3:]
        # regenerate the patch against HEAD
        rc, diff = sh("git diff", cwd=wt)
        sh("git checkout -- .", cwd=wt)
        rc, out = sh(f"/venv/bin/python {src}/demo.py", cwd=wt, env=env, timeout=900)
        res["demo_pristine_rc"] = rc
        res["demo_pristine_tail"] = out.strip().splitlines()[-2:]
        res["diff"] = diff
finally:
    sh(f"git -C /repo worktree remove --force {wt}")
ok = res.get("applies") and "97 passed" in res.get("tests_with_patch", "") and res.get("demo_patched_rc") == 1 and res.get("demo_pristine_rc") == 0
print(sid, "CONFIRMED" if ok else "REJECTED", {k: v for k, v in res.items() if k != "diff"})
if ok:
    d = os.path.join(V, "seeded", sid)
    os.makedirs(d, exist_ok=True)
    open(os.path.join(d, "patch.diff"), "w").write(res["diff"])
    shutil.copy(os.path.join(src, "demo.py"), os.path.join(d, "demo.py"))
    am = json.load(open(os.path.join(src, "meta.json")))
    meta = {
        "id": sid,
        "property": "C" + (am.get("property") or "")[-2:] if (am.get("property") or "")[-2:].isdigit() else am.get("property"),
        "files": am.get("files"), "functions": am.get("functions"),
        "summary": am.get("summary"),
        "needs_to_manifest": am.get("needs_to_manifest"),
        "why_tests_miss": am.get("why_tests_miss"),
        "origin": "independent sub-agent given only the property text and a scratch worktree",
        "confirmed_by_me": {
            "base_commit": subprocess.run("git -C /repo rev-parse --short HEAD", shell=True, capture_output=True, text=True).stdout.strip(),
            "ran": ["git apply patch.diff (scratch worktree of /repo HEAD)", "pytest -q -n 6 (unedited suite)", "demo.py with patch", "git checkout -- . ; demo.py without patch"],
            "tests_with_patch": res["tests_with_patch"],
            "demo_with_patch": "FAIL (exit 1)", "demo_without_patch": "PASS (exit 0)",
        },
    }
    json.dump(meta, open(os.path.join(d, "meta.json"), "w"), indent=1, ensure_ascii=False)
