#!/venv/bin/python
"""Developer tool: write the re-written views of sa/inline.py (temporaries, helpers) of /repo's package to a scratch copy and run the
repository's suite on it - the views must be behaviour-preserving on today's tree (97 passed).  Not used by any registered check."""
import ast, os, shutil, subprocess, sys, tempfile
sys.path.insert(0, os.path.dirname(os.path.dirname(os.path.abspath(__file__))))
from sa.model import Program
tmp = tempfile.mkdtemp(prefix="sa-views-")
try:
    subprocess.run(["cp", "-r", "/repo/.", tmp], check=True)
    P = Program(tmp)
    v = dict(P.inlined_views())["all helpers + temporaries"]
    n = 0
    for m in v.modules.values():
        if m.transform_log:
            n += len(m.transform_log)
            open(m.path, "w").write(ast.unparse(m.tree))
    r = subprocess.run("/venv/bin/python -m pytest -q -p no:cacheprovider --timeout=900 -n 8 2>&1 | tail -1", shell=True, cwd=tmp,
                       env=dict(os.environ, PYTHONPATH=tmp), capture_output=True, text=True)
    print(f"{n} re-writings;", r.stdout.strip())
finally:
    shutil.rmtree(tmp, ignore_errors=True)
