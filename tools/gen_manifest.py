#!/venv/bin/python
"""Regenerate /verif/MANIFEST.json from sa.props (claimed properties) and tools/na.json (not claimed)."""
import json, os, sys
sys.path.insert(0, os.path.dirname(os.path.dirname(os.path.abspath(__file__))))
from sa import props

V = os.path.dirname(os.path.dirname(os.path.abspath(__file__)))
ALL = [json.loads(l)["id"] for l in open(os.path.join(V, "properties.jsonl"))]
na_path = os.path.join(V, "tools", "na.json")
NA = json.load(open(na_path)) if os.path.exists(na_path) else {}
meta_path = os.path.join(V, "tools", "claims.json")
META = json.load(open(meta_path)) if os.path.exists(meta_path) else {}

checks = []
for pid in ALL:
    if pid not in props.PROPS:
        continue
    m = META.get(pid, {})
    checks.append({
        "property_id": pid,
        "quick_cmd": f"/venv/bin/python -m sa.run {pid} --tier quick",
        "thorough_cmd": f"/venv/bin/python -m sa.run {pid} --tier thorough",
        "evidence_file": f"/verif/evidence/{pid}.json",
        "replay_cmd_template": "/venv/bin/python -m sa.run --replay {path}",
        "engine": "sa",
        "level_claimed": {
            "category": "other",
            "text": m.get("text") or props.PROPS[pid]["explanation"],
            "design_ref": m.get("design_ref", f"DESIGN.md §4 {pid}"),
        },
        "level_note": m.get("note", "Static analysis of the syntax tree of /repo/genlm/grammar (stdlib ast; nothing from "
                                      "/repo is imported or run). Decides necessary structural clauses only, not the "
                                      "behavioural property as a whole. Trusted base: the frozen tables of rule instances "
                                      "(confirmed by reading, fail closed when the tree no longer matches), the summaries of "
                                      "third-party behaviour (A1), CPython's ast parser."),
        "technique": m.get("technique", "custom AST static analysis: " + ", ".join(sorted({getattr(r if not isinstance(r, tuple) else r[0], "__name__", "?").replace("rule_", "") for r in props.PROPS[pid]["rules"]}))),
    })
na = []
for pid in ALL:
    if pid in props.PROPS:
        continue
    na.append({"property_id": pid, "reason": NA.get(pid, "static check not built yet in this session (work in progress); no claim is made")})

man = {
    "version": 1,
    "setup_cmd": "/venv/bin/python -m compileall -q sa && /venv/bin/python -m sa.run --selfcheck",
    "hooks": {
        "guard": "GENLM_GRAMMAR_VERIF",
        "enable": "no hooks are needed: the checks parse /repo's working tree and never import or run it (the guard is declared but unused)",
        "baseline_off_cmd": "cd /repo && /venv/bin/python -m pytest -ra -q -p no:cacheprovider --timeout=900 --continue-on-collection-errors",
        "source_commits": [],
        "add_only": True,
    },
    "engines": [{
        "name": "sa",
        "path": "/verif/sa",
        "serves_properties": [c["property_id"] for c in checks],
        "kind_free_text": "repository-specific static analysis over Python's ast: program model (classes/MRO/imports), guard-context walk, freshness/effect analysis with interprocedural summaries, weight-kind dataflow, table extraction + decision procedures, slot rules",
    }],
    "checks": checks,
    "not_applicable": na,
    "notes": "All checks are static (family: static analysis). Exit 0 = all obligations discharged (open known findings printed as KNOWN-FINDING), 1 = VIOLATION with replay file, 2 = ANALYSIS-ERROR (cannot decide: anchor vanished / unrecognised shape). known_findings.json lists open and fixed findings; fix: commits in /repo are repairs of genuine defects, not hooks.",
}
json.dump(man, open(os.path.join(V, "MANIFEST.json"), "w"), indent=1, ensure_ascii=False)
print("claimed", [c["property_id"] for c in checks], "na", len(na))
