#!/venv/bin/python
"""Run every claimed check against every seeded change (scratch copy of /repo's package with the patch applied) and
write seeded/RESULTS.md + `detected_by` into each meta.json.  Developer/report tool; the checks registered in
MANIFEST.json never depend on it."""
import json, os, shutil, subprocess, sys, tempfile
sys.path.insert(0, os.path.dirname(os.path.dirname(os.path.abspath(__file__))))
from sa.model import Program, AnalysisError, repo_root
from sa import props

V = os.path.dirname(os.path.dirname(os.path.abspath(__file__)))

def viol(root):
    from sa import report
    out = {}
    P = Program(root)
    for pid in sorted(props.PROPS):
        s = set()
        for rr in report.run_rules(P, props.PROPS[pid]["rules"]):
            for o in rr.obs:
                if not o.ok:
                    s.add((o.rule if not o.undecided else 'UNDECIDED:' + o.rule, f"{o.file}::{o.function}"))
        out[pid] = s
    return out

def _eval_patch(pf):
    tmp = tempfile.mkdtemp(prefix="sa-seed-")
    try:
        shutil.copytree(os.path.join(repo_root(), "genlm"), os.path.join(tmp, "genlm"), ignore=shutil.ignore_patterns("__pycache__"))
        r = subprocess.run(["patch", "-p1", "-s", "-d", tmp, "-i", pf], capture_output=True, text=True)
        if r.returncode != 0:
            return pf, None
        return pf, viol(tmp)
    except Exception as e:  # a crash of the analysis on a patched tree is reported, not hidden
        return pf, {"__error__": {(f"INTERNAL:{type(e).__name__}", str(e)[:80])}}
    finally:
        shutil.rmtree(tmp, ignore_errors=True)


base = viol(repo_root())
_all = []
for _d in ("seeded", "benign"):
    _dd = os.path.join(V, _d)
    if os.path.isdir(_dd):
        for _x in sorted(os.listdir(_dd)):
            if os.path.isfile(os.path.join(_dd, _x, "patch.diff")):
                _all.append(os.path.join(_dd, _x, "patch.diff"))
import multiprocessing as _mp
with _mp.get_context("fork").Pool(14) as _pool:
    RESULTS = dict(_pool.map(_eval_patch, _all, chunksize=1))
rows = []
for sid in sorted(os.listdir(os.path.join(V, "seeded"))):
    d = os.path.join(V, "seeded", sid)
    if not os.path.isfile(os.path.join(d, "patch.diff")):
        continue
    meta = json.load(open(os.path.join(d, "meta.json")))
    got = RESULTS.get(os.path.join(d, "patch.diff"))
    if got is None:
        rows.append((sid, meta.get("property"), "patch does not apply to the current tree", ""))
        continue
    got = {p: got.get(p, set()) for p in base}
    own = meta.get("property")
    own_new = sorted(got.get(own, set()) - base.get(own, set()))
    others = {p: sorted(got[p] - base[p]) for p in got if p != own and got[p] - base[p]}
    meta["detected_by"] = {"own_property_check": [f"{a} @ {b}" for a, b in own_new],
                           "other_property_checks": {p: sorted({a for a, _ in v}) for p, v in others.items()}}
    meta["detected"] = bool(own_new)
    meta["verdict"] = ("VIOLATION" if any(not a.startswith("UNDECIDED:") for a, _ in own_new) else
                       "UNDECIDED (exit 2: the check refuses to pass but cannot name a violated clause)" if own_new else "missed")
    json.dump(meta, open(os.path.join(d, "meta.json"), "w"), indent=1, ensure_ascii=False)
    rows.append((sid, own, ", ".join(sorted({a for a, _ in own_new})) or "— (not detected by its own property's check)",
                 "; ".join(f"{p}: {', '.join(sorted({a for a, _ in v}))}" for p, v in sorted(others.items()))))
with open(os.path.join(V, "seeded", "RESULTS.md"), "w") as f:
    f.write("# Seeded changes vs. checks\n\nEach row: an independently produced breaking change (confirmed: unedited suite passes with it, its demo fails with it "
            "and passes without), the rules of its own property's check that report a NEW violation on it, and other properties' checks that also fire.\n\n")
    f.write("| seeded change | property | reported by its own check | also reported under |\n|---|---|---|---|\n")
    for row in rows:
        f.write("| " + " | ".join(x or "" for x in row) + " |\n")
    n = len(rows); d_ = sum(1 for r_ in rows if not r_[2].startswith("—") and "does not apply" not in r_[2])
    hard = sum(1 for r_ in rows if not r_[2].startswith("—") and "does not apply" not in r_[2]
               and any(not x.strip().startswith("UNDECIDED:") for x in r_[2].split(",")))
    f.write(f"\n{d_} of {n} make the check of the property they break fail; {hard} of those with a VIOLATION line naming the construct (exit 1), "
            f"{d_ - hard} only as UNDECIDED (exit 2, `ANALYSIS-ERROR ... cannot decide`).\n")
# ---- behaviour-preserving refactorings (false-alarm control): every check must stay silent
brows = []
bdir = os.path.join(V, "benign")
for bid in sorted(os.listdir(bdir)) if os.path.isdir(bdir) else []:
    pf = os.path.join(bdir, bid, "patch.diff")
    if not os.path.isfile(pf):
        continue
    got = RESULTS.get(pf)
    if got is None:
        brows.append((bid, "patch does not apply to the current tree", ""))
        continue
    got = {p: got.get(p, set()) for p in base}
    new = {p: sorted({a for a, _ in got[p] - base[p]}) for p in got if got[p] - base[p]}
    hard = sorted({a for v_ in new.values() for a in v_ if not a.startswith("UNDECIDED:")})
    soft = sorted({a for v_ in new.values() for a in v_ if a.startswith("UNDECIDED:")})
    note = ""
    nf = os.path.join(bdir, bid, "note.txt")
    if os.path.isfile(nf):
        note = " ".join(open(nf).read().split())[:110]
    brows.append((bid, "FALSE VIOLATION: " + ", ".join(hard) if hard else ("undecided (exit 2): " + ", ".join(soft) if soft else "silent"), note))
with open(os.path.join(V, "seeded", "RESULTS.md"), "a") as f:
    f.write("\n## Benign refactorings\n\nBehaviour-preserving edits produced by independent sub-agents (suite green with each; patches in `benign/`). "
            "Every check is run on a scratch copy with the patch; anything but *silent* is a cost of the rules.\n\n")
    f.write("| refactoring | outcome over all 20 checks | what it does |\n|---|---|---|\n")
    for row in brows:
        f.write("| " + " | ".join(x.replace("|", "/") for x in row) + " |\n")
    f.write(f"\n{sum(1 for b in brows if b[1] == 'silent')} of {len(brows)} silent; "
            f"{sum(1 for b in brows if b[1].startswith('undecided'))} undecided (exit 2, no VIOLATION line); "
            f"{sum(1 for b in brows if b[1].startswith('FALSE'))} false violations.\n")
print(open(os.path.join(V, "seeded", "RESULTS.md")).read())
