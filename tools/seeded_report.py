#!/venv/bin/python
"""Run every claimed check against every seeded change (scratch copy of /repo's package with the patch applied) and
write seeded/RESULTS.md + `detected_by` into each meta.json.  Developer/report tool; the checks registered in
MANIFEST.json never depend on it."""
import json, os, shutil, subprocess, sys, tempfile
sys.path.insert(0, os.path.dirname(os.path.dirname(os.path.abspath(__file__))))
from sa.model import Program, AnalysisError, repo_root
from sa import props

V = os.path.dirname(os.path.dirname(os.path.abspath(__file__)))

def viol(root):
    from sa import report
    out = {}
    P = Program(root)
    for pid in sorted(props.PROPS):
        s = set()
        for rr in report.run_rules(P, props.PROPS[pid]["rules"]):
            for o in rr.obs:
                if not o.ok:
                    s.add((o.rule if not o.undecided else 'UNDECIDED:' + o.rule, f"{o.file}::{o.function}"))
        out[pid] = s
    return out

base = viol(repo_root())
rows = []
for sid in sorted(os.listdir(os.path.join(V, "seeded"))):
    d = os.path.join(V, "seeded", sid)
    if not os.path.isfile(os.path.join(d, "patch.diff")):
        continue
    meta = json.load(open(os.path.join(d, "meta.json")))
    tmp = tempfile.mkdtemp(prefix="sa-seed-")
    try:
        shutil.copytree(os.path.join(repo_root(), "genlm"), os.path.join(tmp, "genlm"), ignore=shutil.ignore_patterns("__pycache__"))
        r = subprocess.run(["patch", "-p1", "-s", "-d", tmp, "-i", os.path.join(d, "patch.diff")], capture_output=True, text=True)
        if r.returncode != 0:
            rows.append((sid, meta.get("property"), "patch does not apply to the current tree", ""))
            continue
        got = viol(tmp)
    finally:
        shutil.rmtree(tmp, ignore_errors=True)
    own = meta.get("property")
    own_new = sorted(got.get(own, set()) - base.get(own, set()))
    others = {p: sorted(got[p] - base[p]) for p in got if p != own and got[p] - base[p]}
    meta["detected_by"] = {"own_property_check": [f"{a} @ {b}" for a, b in own_new],
                           "other_property_checks": {p: sorted({a for a, _ in v}) for p, v in others.items()}}
    meta["detected"] = bool(own_new)
    json.dump(meta, open(os.path.join(d, "meta.json"), "w"), indent=1, ensure_ascii=False)
    rows.append((sid, own, ", ".join(sorted({a for a, _ in own_new})) or "— (not detected by its own property's check)",
                 "; ".join(f"{p}: {', '.join(sorted({a for a, _ in v}))}" for p, v in sorted(others.items()))))
with open(os.path.join(V, "seeded", "RESULTS.md"), "w") as f:
    f.write("# Seeded changes vs. checks\n\nEach row: an independently produced breaking change (confirmed: unedited suite passes with it, its demo fails with it "
            "and passes without), the rules of its own property's check that report a NEW violation on it, and other properties' checks that also fire.\n\n")
    f.write("| seeded change | property | reported by its own check | also reported under |\n|---|---|---|---|\n")
    for row in rows:
        f.write("| " + " | ".join(x or "" for x in row) + " |\n")
    n = len(rows); d_ = sum(1 for r_ in rows if not r_[2].startswith("—") and "does not apply" not in r_[2])
    f.write(f"\n{d_} of {n} detected by the check of the property they break.\n")
print(open(os.path.join(V, "seeded", "RESULTS.md")).read())
